#!/usr/bin/env python3
"""Regenerates MANIFEST.json from the table below (kept next to the harness registry so that the
manifest can never name a check that does not exist)."""
import json
import os
import subprocess
import sys

ROOT = os.path.dirname(os.path.abspath(__file__))
sys.path.insert(0, ROOT)

TECH = "bounded model checking of the compiled crate (Kani 0.68 -> CBMC 6.11 -> CaDiCaL SAT) over symbolic inputs"

# property -> (level text, level note, design ref, technique detail)
CLAIMS = {
    "C13": (
        "For each of the four control-point kinds the SAT solver decides one inductive step of the public "
        "collection API: from an ARBITRARY strictly-ordered list of n stored points (every f64 time, every value) "
        "one ControlPoints::add with an arbitrary point yields exactly the list the legacy rules prescribe "
        "(dropped / replaced / inserted, everything else untouched, strictly increasing), and a lookup at an "
        "arbitrary probe time returns the latest point not after it with the stated fallbacks. By induction over "
        "add operations this covers insertion histories of any length for lists up to the bound; inside the bound "
        "it is total over all 2^64 bit patterns of every time and value, which no enumeration over a small alphabet reaches.",
        "Bound: n <= 2 stored points (quick), n <= 4 (thorough); one add; one lookup. Times: all f64 except NaN "
        "(outside) and -0.0 (known finding D8, witness harness c13_d8_negzero_witness). Trusted: Kani/CBMC/CaDiCaL, "
        "CBMC's IEEE-754 model; the reference model in kani/src/refmodel/control_points.rs (written from the property "
        "statement). No stub is in force for these harnesses.",
        "DESIGN.md §5 C13",
        TECH + "; inductive-step harness with full functional post-condition vs. reference model",
    ),
}

CLAIMS["C19"] = (
    "Arc-length parametrisation of a curve given as an ARBITRARY valid (path, lengths) pair built through a "
    "forwarding hook: for every f64 progress (NaN, +-inf, -0.0, subnormals included) outside (0,1) the distance is "
    "exactly 0 / the total distance; idx_of_dist brackets every f64 distance; position_at(p <= 0) is the first vertex "
    "(value-exact) and (0,0) for the empty curve. The float-heavy clauses (position at progress >= 1 is the last "
    "vertex; at each vertex's cumulative length the position is that vertex) are decided at reduced width in the "
    "quick tier (integer coordinates in [-128,127], lengths multiples of 1/2: exact equality) and at full f32/f64 "
    "width with kissat in the thorough tier (tolerance 4*2^-23*max|coord|, i.e. the rounding of the code's own lerp).",
    "Bound: <= 4 vertices (quick), <= 6 for idx_of_dist, <= 3 full-width float clauses (thorough); |coord| <= 2^18; "
    "curve invariant assumed: lengths[0]=0, non-decreasing, finite, a segment is longer than f64::EPSILON or has "
    "identical end points. Outside: the Lipschitz clause (position never moves farther than the arc length) and any "
    "statement about points strictly between vertices -- products of two symbolic floats under a tolerance did not "
    "finish (DESIGN.md §5 C19). Trusted: Kani/CBMC float model, hook curve_from_raw (constructor only).",
    "DESIGN.md §5 C19",
    TECH + "; one clause per harness on an arbitrary valid curve state",
)
CLAIMS["C16"] = (
    "calculate_length is run (forwarding hook) on an ARBITRARY polyline with an arbitrary requested length and its "
    "output must have one of the shapes the statement allows, the shape being determined by the inputs: natural "
    "lengths kept only without a request / when already equal up to f64::EPSILON / single point; the osu-stable "
    "exception only with identical last two points and a longer request; otherwise the total distance is bit-for-bit "
    "the requested length, every kept length is below it, the kept prefix of the path is untouched; cumulative "
    "lengths start at +0, never decrease and stay finite.",
    "Bound: 1-2 vertices at full width (all f32 with |coord| <= 2^18, every finite f64 request), 3 vertices on the "
    "integer grid [-128,127]^2 in the quick tier; 3 vertices full width and 4 on the grid in the thorough tier. "
    "Outside: that the NATURAL cumulative lengths equal the true segment lengths and that the moved end point lies "
    "on the cut segment / its extension (need sqrt/normalise equivalence under tolerance: did not finish); Catmull "
    "simplification clause; paths > 4 vertices. End-to-end Curve::new only with CONCRETE Linear control points and "
    "a symbolic requested length (distance = L for every finite L > 0; symbolic points run out of memory at 24 GB).",
    "DESIGN.md §5 C16",
    TECH + "; output-shape specification decided over all inputs of one kernel call",
)
CLAIMS["C18"] = (
    "Inductive form of 'whatever was computed with those buffers before': the shared CurveBuffers start with ARBITRARY "
    "stale content (symbolic points, lengths and vertices, concrete counts 0-4) and one computation through the public "
    "API (Curve::new / BorrowedCurve::new, every mode, every requested length) must yield what fresh buffers yield: "
    "the empty curve for the empty list, exactly the point for a single point; for 2-3 Linear points the two kernels "
    "(calculate_path, calculate_length) are decided separately through forwarding hooks. SliderPath: the cached curve "
    "is what borrowed_curve hands out, and control_points_mut() invalidates it (clear / move a point, then recompute).",
    "Bound: list shapes {empty, single, 2-3 Linear points}; stale content sizes <= 4. Outside: Bezier/Catmull/arc "
    "segments and BezierBuffers reuse; Curve::new end-to-end on >= 2 symbolic points and expected_dist_mut() "
    "invalidation on a 2-point path (out of memory at 16-24 GB). The check found defect D6 (stale path for the empty "
    "list), repaired by fix commit b58fcf3.",
    "DESIGN.md §5 C18",
    TECH + "; arbitrary-stale-state one-step harnesses instead of call histories",
)

CLAIMS["C08"] = (
    "rosu-map's own delivery-sensitive code, the BOM sniffing in Decoder::new, is executed against a harness-side "
    "BufRead that delivers ARBITRARY data bytes in chunks of symbolic size (down to single bytes, first chunk shorter "
    "than a BOM included) and reports Interrupted at symbolic refills: for every such schedule the detected encoding "
    "is from_bom(data) and the bytes still to be read (re-chained sniffed bytes + the reader's rest) are exactly the "
    "data minus the BOM -- nothing lost, duplicated or reordered; a hard reader error at a symbolic refill surfaces "
    "unchanged. The check found defect D3 (first chunk < 3 bytes loses the whole file), repaired by fix commit in /repo.",
    "Bound: data <= 5 bytes (quick) / 7 (thorough), <= 3-4 Interrupted results, <= 1 hard error. Outside: line assembly "
    "(Decoder::read_line = std read_until/read_exact, whose chunk-independence is std's contract; read_line itself is "
    "not executable under CBMC here: out of memory up to 40 GB) and with it whole-file chunk independence; from_path. "
    "Trusted: std::io::Chain/Cursor as compiled by Kani; the harness reader honours the BufRead contract "
    "(same buffer until consumed).",
    "DESIGN.md §5 C08",
    TECH + "; environment (reader) replaced by a nondeterministic stub with symbolic chunk sizes and fault points",
)
CLAIMS["C05"] = (
    "Line classification of the framing rule, decided against a reference classifier written from the statement: "
    "should_skip_line on every ASCII line of <= 5 bytes (blank, indented comment, single slash ...); "
    "Section::try_from_line on every ASCII line of <= 14 bytes plus each real header with one symbolic byte inserted "
    "anywhere (indented / suffixed / infixed headers are not headers; exactly the 11 names, case-sensitive); "
    "Decoder::curr_line removes trailing white space only (leading white space survives); try_version_from_line on short lines and on the version prefix followed by every ASCII tail (number after the last "
    "'v', real i32 parser, +-(2^31-1) limit, bad number != not-a-version-line).",
    "Bound: lines <= 5 / 14 bytes, version tails <= 1 byte (quick) / <= 4 bytes (thorough), ASCII only (non-ASCII white "
    "space before '//' is outside). Outside: the driver loop that acts on the classes (skip-before-first-header, "
    "header switching, error swallowing) -- no probe of the real loop finished under CBMC (DESIGN.md §5 C05). "
    "Stubs: core::slice::memchr::{memchr,memrchr} replaced by the naive byte loop.",
    "DESIGN.md §5 C05",
    TECH + "; differential check of the three line classifiers against a reference on fully symbolic short lines",
)

ORACLE_NOTE = ("Number oracle: str::parse::<f64|f32|i32|u8> is replaced (Kani stub) by 'parse error or ANY value of the type', "
               "consistent per token -- an over-approximation of std that loses only the digits<->value relation (std's contract); "
               "core::slice::memchr::{memchr,memrchr} replaced by the naive loop. Text of every line is concrete (template), numbers symbolic. "
               "Counterexamples are replayed natively WITHOUT stubs: the tokens are replaced by the decimal text of the solver's values.")

CLAIMS["C03"] = (
    "Decoder side of the edit round trip for metadata text fields: the encoder writes 'Key: value' (format strings of "
    "encode.rs); for EVERY ASCII value of the stated length without line breaks or surrounding white space -- colons, "
    "'//', commas, quotes, brackets included -- Metadata::parse_metadata on 'Key: ' + value stores exactly the value in "
    "exactly that key's field. The check found defect D1 (value cut at its first colon), repaired by a fix commit.",
    "Bound: value length <= 3 bytes for Title, <= 2 for Tags / ArtistUnicode (each key goes through the same "
    "KeyValue::parse + clone_into); ASCII only. Outside: numeric / flag / bookmark / colour / break edits (need the "
    "encoder's number formatting, not executable: core::fmt runs out of memory), file names, 'every other field "
    "unchanged' at whole-map level, the encoder itself. Stubs: memchr/memrchr naive loop.",
    "DESIGN.md §5 C03",
    TECH + "; fully symbolic value text through the real key/value parser",
)
CLAIMS["C10"] = (
    "Transcoding level: Encoding::from_bom on every byte string <= 4 bytes equals the BOM table of the statement; the "
    "UTF-16 unit iterators pair bytes in the stated order and drop an odd trailing byte for every input <= 5 bytes; "
    "Encoding::decode for UTF-16LE/BE on one arbitrary code unit (+ arbitrary odd byte) equals a reference transcoder "
    "written from the Unicode standard (every BMP scalar, lone surrogates -> U+FFFD), whatever text the shared destination buffer held before.",
    "Bound: 1 arbitrary code unit, or 2 units with a concrete first unit (D83C / DC00 / U+4E0A) and every second unit; "
    "2 fully symbolic units run out of memory, the UTF-8 lossy path does not finish even on concrete input. Outside: everything in Decoder::read_line (LF search on "
    "raw bytes, the extra byte after LF in UTF-16LE) -- not executable under CBMC (out of memory up to 40 GB); the "
    "defects D4/D5 observed natively there are NOT found by this check (DESIGN.md §6); texts longer than the bound.",
    "DESIGN.md §5 C10",
    TECH + "; differential check against a reference transcoder on fully symbolic code units",
)
CLAIMS["C11"] = (
    "For every recognised key of General, Editor, Metadata, Difficulty (one template line per key) and for break, "
    "background/video/sprite and colour records: from an ARBITRARY state of the section, the line sets exactly its "
    "documented field by the documented conversion for EVERY value of the field's numeric type (and for parse "
    "failure): +-(2^31-1) limit in the field's own type, NaN rejected, flag true only for 1, clamps [0.4,3.6] / "
    "[0.5,8], approach rate follows overall difficulty until set, break end >= start, R,G,B[,A] with ignored alpha, "
    "2 or 5 colour fields rejected, named colour overrides, unknown keys ignored, invalid values leave every field "
    "untouched; background precedence over 16 concrete lines (names without dot, with long extensions, non-ASCII, shorter than 3 bytes included); colour names are case-sensitive.",
    "Bound: one line per harness from an arbitrary section state (inductive step over lines); template corpus = one "
    "line shape per key (padded / comment-suffixed variants for some). " + ORACLE_NOTE + " Outside: decimal syntax "
    "accepted by std; Bookmarks lists (collect() over symbolic data did not finish); file-name cleaning on arbitrary text.",
    "DESIGN.md §5 C11",
    TECH + "; number-oracle harness per key vs. table-driven reference",
)
CLAIMS["C12"] = (
    "parse_timing_points + add_control_point + flush + the four ControlPoint::add impls + TimingPoints::from(state) "
    "against a reference model of the legacy semantics evaluated on the same symbolic values: groups by time, last "
    "inherited line wins / first timing-change line wins per kind, redundancy against the active point, replacement at "
    "equal time, clamps [6,60000] / [0.1,10] / [0.01,10] (taiko, mania only) / [0,100], NaN only on inherited lines "
    "(ticks off), defaults from [General]; the four lists must be element-wise equal and strictly increasing; a rejected line leaves the pending group and the lists untouched (observed through a hook).",
    "Bound: 1 line (4 shapes); 2 lines at one time (same kind: both symbolic; different kinds: first line concrete); a second line at another time runs out of memory (flush = ControlPoints::add, decided under C13); "
    "times from {-5,0,10,20} (concrete tokens); beat length from an 18-value alphabet incl. 0, -0, NaN, +-3e9, inf, "
    "-1e-300 (the velocity division 100/-b is computed by code and reference: two full-width dividers do not finish); "
    "signature, bank, custom bank, volume, flags: every i32 or parse error; mode / default bank / default volume "
    "symbolic. " + ORACLE_NOTE + " Outside: times closer than f64::EPSILON, +-0 (D8, see C13), > 2 lines.",
    "DESIGN.md §5 C12",
    TECH + "; differential check against a reference model of the legacy state machine",
)
CLAIMS["C14"] = (
    "parse_hit_objects on circle lines (x, y: every f32; time: every f64; type: every i32 with the circle flag; "
    "concrete hit-sound number; optional extras with every i32) from an arbitrary predecessor, and on six-field lines "
    "with the type EVERY i32: truncation within +-131072, kind precedence circle > slider > spinner > hold, unknown "
    "kinds rejected, combo offset only with new-combo, first-object / after-spinner rule, spinner / hold durations "
    "max(0, .), remembered type, the documented sample list; convert_path_str (hook) on single typed segments "
    "'<P|B|L|C>|x:y|x:y': origin carries the type, collinear perfect curve -> linear, offsets, rejection leaves no "
    "control points.",
    "Bound: template corpus above; hit-sound number concrete (6; with extras 10 in the thorough tier; fully symbolic in thorough: the "
    "sample Vec's length must stay concrete for CBMC); no repeated consecutive path points. " + ORACLE_NOTE +
    " Outside: full slider lines and multi-segment paths (explicit second type letter) -- not executable (out of "
    "memory / no result, DESIGN.md §5 C06/C14), hence defect D2 is NOT found; repeat counts, node samples, file names.",
    "DESIGN.md §5 C14",
    TECH + "; number-oracle harness vs. independent reference parser",
)
CLAIMS["C15"] = (
    "Kernels of the map-level processing: post_process_breaks (hook) on <= 3 objects of any kind with arbitrary sorted "
    "f64 times and <= 2 arbitrary chronological breaks vs. the rule 'first object after a break's end starts a combo'; "
    "SamplePoint::apply on an arbitrary sample x arbitrary sample point vs. the stated defaults rule; the "
    "precision-adjusted beat length (velocity formula with per-mode clamps) over an alphabet.",
    "Bound: <= 3 objects, <= 2 breaks; velocity formula over 8 slider velocities x 4 beat lengths x 4 modes (alphabet, "
    "not all f64: symbolic division does not finish). Outside: stable sort order (after sort_by on symbolic times CBMC "
    "does not finish), whole-file shift invariance, slider node timing, the 5 ms lookup beyond C13's lookup clause.",
    "DESIGN.md §5 C15",
    TECH + "; kernel harnesses through forwarding hooks",
)
CLAIMS["C06"] = (
    "One-step form: for every section parser and every template of the corpus, when the parser returns Err the "
    "section state is bit-for-bit what it was before the line (every field, incl. scratch buffers curve_points / "
    "vertices / point_split and the pending timing group as observed through the final lists). Served by the "
    "C11/C12/C14 harnesses, whose oracle may fail ANY individual number token, so failure after partial progress is "
    "explored at every field position.",
    "Bound: the template corpus of C11/C12(1 line)/C14; arbitrary pre-state for key/value sections, initial or "
    "arbitrary-predecessor state for hit objects. Outside: multi-segment slider paths -- the second segment failing "
    "after the first was committed is exactly defect D2, observed natively and NOT reachable by this check "
    "(DESIGN.md §6); lines outside the corpus.",
    "DESIGN.md §5 C06",
    TECH + "; rejection branch of the number-oracle harnesses",
)
CLAIMS["C07"] = (
    "All nine provided types share the generic driver; they differ in per-section delegation and in From<State>. "
    "Per line (same oracle interpretation): the full decoder's state and each specialised decoder's state end with "
    "equal shared fields and equal acceptance for Difficulty, General, Editor, Metadata, Colours and Events lines, "
    "and decoders that do not own a section ignore it; Beatmap::from(BeatmapState) copies every numeric / flag field "
    "(all symbolic) of General, Difficulty, Editor, Metadata and the version, and keeps two arbitrary breaks in file order.",
    "Bound: 2 templates per shared section; conversions with empty object / control-point lists. " + ORACLE_NOTE +
    " A timing line and a circle line are decided the same way (equal pending group / equal stored object). "
    "Outside: more than one line per section, lines outside the corpus.",
    "DESIGN.md §5 C07",
    TECH + "; two-run (full vs. specialised decoder) equality under one oracle interpretation",
)
CLAIMS["C01"] = (
    "Totality, unit-wise: every harness of C11/C12/C14 runs a real line parser on EVERY value of every numeric field "
    "(NaN, +-inf, i32::MIN, parse errors) with all of Kani's checks on (panics, unwrap, index, overflow, pointer "
    "validity, unsafe preconditions); Decoder::new under arbitrary chunk schedules (C08), from_bom / UTF-16 decode on "
    "arbitrary bytes (C10); the unsafe guards NonZeroU32::new_unchecked in HitSampleInfo::new and SamplePoint::apply "
    "for every i32, the raw-slice re-borrow in point_split (path harnesses).",
    "Bound: the union of the bounds of the harnesses listed (template corpus, <= 5 raw bytes). Outside: "
    "Decoder::read_line, the generic driver loop and any composition over whole files (not executable under CBMC), so "
    "'an error can only originate from the reader' and defect D5 are not decided; the UTF-8 lossy loop with its "
    "from_utf8_unchecked (out of memory); curves beyond C16/C18; encode. " + ORACLE_NOTE,
    "DESIGN.md §5 C01",
    TECH + "; panic/UB freedom of each unit over fully symbolic numeric inputs",
)

NOT_APPLICABLE = {
    "C02": "whole-map text round trip needs Display/FromStr of floats and hundreds of map-shaped symbolic text bytes; Beatmap::encode alone exhausts 28 GB inside core::fmt under CBMC (DESIGN.md §5 C02, §7)",
    "C04": "oracle is the parser applied to encoder output (map-shaped text with printed floats); even the path-serialisation clause needs >= 12 symbolic text bytes through nested splits, beyond the measured budget (DESIGN.md §5 C04, §7)",
    "C09": "Decoder::read_line, the generic decode driver and Beatmap::encode are each beyond CBMC here (out of memory <= 40 GB / no result in 15 min); the one reachable fragment (read_bom error propagation) is asserted under C08 (DESIGN.md §5 C09, §7)",
    "C17": "needs sin_cos/atan2/acos (no bit-precise model in CBMC) and real-analysis error bounds of unbounded adaptive subdivision: a proof-assistant problem, not a bounded bit-vector query (DESIGN.md §5 C17, §7)",
    "C20": "SliderEventsIter keeps pending events in a heap Vec whose length is decided by float comparisons; every probe (1-3 spans, 0-2 ticks, tick_dist = 0, reverse stubbed) ran out of time or memory up to 24 GB (DESIGN.md §5 C20, §7)",
}

PENDING = "check not built yet in this revision of /verif (planned, see DESIGN.md §5); not claimed until its harnesses exist and pass on the unchanged tree"


def main():
    props = [json.loads(l)["id"] for l in open(os.path.join(ROOT, "properties.jsonl"))]
    hooks_commits = subprocess.run(
        ["git", "-C", "/repo", "log", "--format=%h %s", "--grep=^verif hook"],
        capture_output=True, text=True).stdout.strip().splitlines()
    checks = []
    na = []
    for p in props:
        if p in CLAIMS:
            text, note, ref, tech = CLAIMS[p]
            checks.append({
                "property_id": p,
                "quick_cmd": f"./check {p} --tier quick",
                "thorough_cmd": f"./check {p} --tier thorough",
                "evidence_file": f"/verif/evidence/{p}.json",
                "replay_cmd_template": "./check --replay {path}",
                "engine": "kani-cbmc",
                "level_claimed": {"category": "model_checking", "text": text, "design_ref": ref},
                "level_note": note,
                "technique": tech,
            })
        else:
            na.append({"property_id": p, "reason": NOT_APPLICABLE.get(p, PENDING)})
    manifest = {
        "version": 1,
        "setup_cmd": "./setup.sh",
        "hooks": {
            "guard": "--cfg maxohn_rosu_map_verif (rustc cfg flag, passed through RUSTFLAGS)",
            "enable": "RUSTFLAGS=\"--cfg maxohn_rosu_map_verif\" cargo kani ... (set by /verif/check for every harness build; the harness crate /verif/kani has a path dependency on /repo)",
            "baseline_off_cmd": "cd /repo && cargo test --workspace --no-fail-fast --offline",
            "source_commits": [c.split()[0] for c in hooks_commits],
            "add_only": True,
        },
        "engines": [
            {
                "name": "kani-cbmc",
                "path": "/verif/kani",
                "serves_properties": sorted(CLAIMS),
                "kind_free_text": "Kani 0.68.0 proof harnesses (#[kani::proof]) over kani::any() inputs, compiled from /repo's working tree on every run, decided by CBMC 6.11.0 + CaDiCaL; counterexamples replayed natively through Kani concrete playback without stubs",
            }
        ],
        "checks": checks,
        "not_applicable": na,
        "notes": "Every check: ./check <ID> --tier quick|thorough. Exit 0 = decided and held inside the stated bounds; "
                 "1 = VIOLATION (solver counterexample reproduced natively); 2 = inconclusive (never a pass). "
                 "Known findings are listed in known_findings.txt and printed as KNOWN-FINDING lines.",
    }
    with open(os.path.join(ROOT, "MANIFEST.json"), "w") as f:
        json.dump(manifest, f, indent=1)
    print(f"MANIFEST.json: {len(checks)} checks, {len(na)} not_applicable")


if __name__ == "__main__":
    main()
