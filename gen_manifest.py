#!/usr/bin/env python3
"""Regenerates MANIFEST.json from the table below (kept next to the harness registry so that the
manifest can never name a check that does not exist)."""
import json
import os
import subprocess
import sys

ROOT = os.path.dirname(os.path.abspath(__file__))
sys.path.insert(0, ROOT)

TECH = "bounded model checking of the compiled crate (Kani 0.68 -> CBMC 6.11 -> CaDiCaL SAT) over symbolic inputs"

# property -> (level text, level note, design ref, technique detail)
CLAIMS = {
    "C13": (
        "For each of the four control-point kinds the SAT solver decides one inductive step of the public "
        "collection API: from an ARBITRARY strictly-ordered list of n stored points (every f64 time, every value) "
        "one ControlPoints::add with an arbitrary point yields exactly the list the legacy rules prescribe "
        "(dropped / replaced / inserted, everything else untouched, strictly increasing), and a lookup at an "
        "arbitrary probe time returns the latest point not after it with the stated fallbacks. By induction over "
        "add operations this covers insertion histories of any length for lists up to the bound; inside the bound "
        "it is total over all 2^64 bit patterns of every time and value, which no enumeration over a small alphabet reaches.",
        "Bound: n <= 2 stored points (quick), n <= 4 (thorough); one add; one lookup. Times: all f64 except NaN "
        "(outside) and -0.0 (known finding D8, witness harness c13_d8_negzero_witness). Trusted: Kani/CBMC/CaDiCaL, "
        "CBMC's IEEE-754 model; the reference model in kani/src/refmodel/control_points.rs (written from the property "
        "statement). No stub is in force for these harnesses.",
        "DESIGN.md §5 C13",
        TECH + "; inductive-step harness with full functional post-condition vs. reference model",
    ),
}

CLAIMS["C19"] = (
    "Arc-length parametrisation of a curve given as an ARBITRARY valid (path, lengths) pair built through a "
    "forwarding hook: for every f64 progress (NaN, +-inf, -0.0, subnormals included) outside (0,1) the distance is "
    "exactly 0 / the total distance; idx_of_dist brackets every f64 distance; position_at(p <= 0) is the first vertex "
    "(value-exact) and (0,0) for the empty curve. The float-heavy clauses (position at progress >= 1 is the last "
    "vertex; at each vertex's cumulative length the position is that vertex) are decided at reduced width in the "
    "quick tier (integer coordinates in [-128,127], lengths multiples of 1/2: exact equality) and at full f32/f64 "
    "width with kissat in the thorough tier (tolerance 4*2^-23*max|coord|, i.e. the rounding of the code's own lerp).",
    "Bound: <= 4 vertices (quick), <= 6 for idx_of_dist, <= 3 full-width float clauses (thorough); |coord| <= 2^18; "
    "curve invariant assumed: lengths[0]=0, non-decreasing, finite, a segment is longer than f64::EPSILON or has "
    "identical end points. Outside: the Lipschitz clause (position never moves farther than the arc length) and any "
    "statement about points strictly between vertices -- products of two symbolic floats under a tolerance did not "
    "finish (DESIGN.md §5 C19). Trusted: Kani/CBMC float model, hook curve_from_raw (constructor only).",
    "DESIGN.md §5 C19",
    TECH + "; one clause per harness on an arbitrary valid curve state",
)
CLAIMS["C16"] = (
    "calculate_length is run (forwarding hook) on an ARBITRARY polyline with an arbitrary requested length and its "
    "output must have one of the shapes the statement allows, the shape being determined by the inputs: natural "
    "lengths kept only without a request / when already equal up to f64::EPSILON / single point; the osu-stable "
    "exception only with identical last two points and a longer request; otherwise the total distance is bit-for-bit "
    "the requested length, every kept length is below it, the kept prefix of the path is untouched; cumulative "
    "lengths start at +0, never decrease and stay finite.",
    "Bound: 1-2 vertices at full width (all f32 with |coord| <= 2^18, every finite f64 request), 3 vertices on the "
    "integer grid [-128,127]^2 in the quick tier; 3 vertices full width and 4 on the grid in the thorough tier. "
    "Outside: that the NATURAL cumulative lengths equal the true segment lengths and that the moved end point lies "
    "on the cut segment / its extension (need sqrt/normalise equivalence under tolerance: did not finish); Catmull "
    "simplification clause; paths > 4 vertices; end-to-end Curve::new (out of memory at 24 GB).",
    "DESIGN.md §5 C16",
    TECH + "; output-shape specification decided over all inputs of one kernel call",
)
CLAIMS["C18"] = (
    "Inductive form of 'whatever was computed with those buffers before': the shared CurveBuffers start with ARBITRARY "
    "stale content (symbolic points, lengths and vertices, concrete counts 0-4) and one computation through the public "
    "API (Curve::new / BorrowedCurve::new, every mode, every requested length) must yield what fresh buffers yield: "
    "the empty curve for the empty list, exactly the point for a single point; for 2-3 Linear points the two kernels "
    "(calculate_path, calculate_length) are decided separately through forwarding hooks. SliderPath: the cached curve "
    "is what borrowed_curve hands out, and control_points_mut() invalidates it (clear / move a point, then recompute).",
    "Bound: list shapes {empty, single, 2-3 Linear points}; stale content sizes <= 4. Outside: Bezier/Catmull/arc "
    "segments and BezierBuffers reuse; Curve::new end-to-end on >= 2 symbolic points and expected_dist_mut() "
    "invalidation on a 2-point path (out of memory at 16-24 GB). The check found defect D6 (stale path for the empty "
    "list), repaired by fix commit b58fcf3.",
    "DESIGN.md §5 C18",
    TECH + "; arbitrary-stale-state one-step harnesses instead of call histories",
)

CLAIMS["C08"] = (
    "rosu-map's own delivery-sensitive code, the BOM sniffing in Decoder::new, is executed against a harness-side "
    "BufRead that delivers ARBITRARY data bytes in chunks of symbolic size (down to single bytes, first chunk shorter "
    "than a BOM included) and reports Interrupted at symbolic refills: for every such schedule the detected encoding "
    "is from_bom(data) and the bytes still to be read (re-chained sniffed bytes + the reader's rest) are exactly the "
    "data minus the BOM -- nothing lost, duplicated or reordered; a hard reader error at a symbolic refill surfaces "
    "unchanged. The check found defect D3 (first chunk < 3 bytes loses the whole file), repaired by fix commit in /repo.",
    "Bound: data <= 5 bytes (quick) / 7 (thorough), <= 3-4 Interrupted results, <= 1 hard error. Outside: line assembly "
    "(Decoder::read_line = std read_until/read_exact, whose chunk-independence is std's contract; read_line itself is "
    "not executable under CBMC here: out of memory up to 40 GB) and with it whole-file chunk independence; from_path. "
    "Trusted: std::io::Chain/Cursor as compiled by Kani; the harness reader honours the BufRead contract "
    "(same buffer until consumed).",
    "DESIGN.md §5 C08",
    TECH + "; environment (reader) replaced by a nondeterministic stub with symbolic chunk sizes and fault points",
)
CLAIMS["C05"] = (
    "Line classification of the framing rule, decided against a reference classifier written from the statement: "
    "should_skip_line on every ASCII line of <= 5 bytes (blank, indented comment, single slash ...); "
    "Section::try_from_line on every ASCII line of <= 14 bytes plus each real header with one symbolic byte inserted "
    "anywhere (indented / suffixed / infixed headers are not headers; exactly the 11 names, case-sensitive); "
    "try_version_from_line on short lines and on the version prefix followed by every ASCII tail (number after the last "
    "'v', real i32 parser, +-(2^31-1) limit, bad number != not-a-version-line).",
    "Bound: lines <= 5 / 14 bytes, version tails <= 1 byte (quick) / <= 4 bytes (thorough), ASCII only (non-ASCII white "
    "space before '//' is outside). Outside: the driver loop that acts on the classes (skip-before-first-header, "
    "header switching, error swallowing) -- no probe of the real loop finished under CBMC (DESIGN.md §5 C05). "
    "Stubs: core::slice::memchr::{memchr,memrchr} replaced by the naive byte loop.",
    "DESIGN.md §5 C05",
    TECH + "; differential check of the three line classifiers against a reference on fully symbolic short lines",
)

NOT_APPLICABLE = {
    "C02": "whole-map text round trip needs Display/FromStr of floats and hundreds of map-shaped symbolic text bytes; Beatmap::encode alone exhausts 28 GB inside core::fmt under CBMC (DESIGN.md §5 C02, §7)",
    "C04": "oracle is the parser applied to encoder output (map-shaped text with printed floats); even the path-serialisation clause needs >= 12 symbolic text bytes through nested splits, beyond the measured budget (DESIGN.md §5 C04, §7)",
    "C09": "Decoder::read_line, the generic decode driver and Beatmap::encode are each beyond CBMC here (out of memory <= 40 GB / no result in 15 min); the one reachable fragment (read_bom error propagation) is asserted under C08 (DESIGN.md §5 C09, §7)",
    "C17": "needs sin_cos/atan2/acos (no bit-precise model in CBMC) and real-analysis error bounds of unbounded adaptive subdivision: a proof-assistant problem, not a bounded bit-vector query (DESIGN.md §5 C17, §7)",
    "C20": "SliderEventsIter keeps pending events in a heap Vec whose length is decided by float comparisons; every probe (1-3 spans, 0-2 ticks, tick_dist = 0, reverse stubbed) ran out of time or memory up to 24 GB (DESIGN.md §5 C20, §7)",
}

PENDING = "check not built yet in this revision of /verif (planned, see DESIGN.md §5); not claimed until its harnesses exist and pass on the unchanged tree"


def main():
    props = [json.loads(l)["id"] for l in open(os.path.join(ROOT, "properties.jsonl"))]
    hooks_commits = subprocess.run(
        ["git", "-C", "/repo", "log", "--format=%h %s", "--grep=^verif hook"],
        capture_output=True, text=True).stdout.strip().splitlines()
    checks = []
    na = []
    for p in props:
        if p in CLAIMS:
            text, note, ref, tech = CLAIMS[p]
            checks.append({
                "property_id": p,
                "quick_cmd": f"./check {p} --tier quick",
                "thorough_cmd": f"./check {p} --tier thorough",
                "evidence_file": f"/verif/evidence/{p}.json",
                "replay_cmd_template": "./check --replay {path}",
                "engine": "kani-cbmc",
                "level_claimed": {"category": "model_checking", "text": text, "design_ref": ref},
                "level_note": note,
                "technique": tech,
            })
        else:
            na.append({"property_id": p, "reason": NOT_APPLICABLE.get(p, PENDING)})
    manifest = {
        "version": 1,
        "setup_cmd": "./setup.sh",
        "hooks": {
            "guard": "--cfg maxohn_rosu_map_verif (rustc cfg flag, passed through RUSTFLAGS)",
            "enable": "RUSTFLAGS=\"--cfg maxohn_rosu_map_verif\" cargo kani ... (set by /verif/check for every harness build; the harness crate /verif/kani has a path dependency on /repo)",
            "baseline_off_cmd": "cd /repo && cargo test --workspace --no-fail-fast --offline",
            "source_commits": [c.split()[0] for c in hooks_commits],
            "add_only": True,
        },
        "engines": [
            {
                "name": "kani-cbmc",
                "path": "/verif/kani",
                "serves_properties": sorted(CLAIMS),
                "kind_free_text": "Kani 0.68.0 proof harnesses (#[kani::proof]) over kani::any() inputs, compiled from /repo's working tree on every run, decided by CBMC 6.11.0 + CaDiCaL; counterexamples replayed natively through Kani concrete playback without stubs",
            }
        ],
        "checks": checks,
        "not_applicable": na,
        "notes": "Every check: ./check <ID> --tier quick|thorough. Exit 0 = decided and held inside the stated bounds; "
                 "1 = VIOLATION (solver counterexample reproduced natively); 2 = inconclusive (never a pass). "
                 "Known findings are listed in known_findings.txt and printed as KNOWN-FINDING lines.",
    }
    with open(os.path.join(ROOT, "MANIFEST.json"), "w") as f:
        json.dump(manifest, f, indent=1)
    print(f"MANIFEST.json: {len(checks)} checks, {len(na)} not_applicable")


if __name__ == "__main__":
    main()
