//! C01 -- decoding never panics or corrupts memory (unit-wise): the `unsafe` guards and kernels
//! that are not already exercised by the oracle harnesses of C11 / C12 / C14 (those run every
//! line parser on every value of every numeric field, with all of Kani's panic / overflow /
//! bounds / pointer checks enabled, and are tagged C01 as well).

use rosu_map::section::hit_objects::hit_samples::{HitSampleInfo, HitSoundType, SampleBank, SampleBankInfo};
use rosu_map::section::hit_objects::{HitObject, HitObjectCircle, HitObjectKind, HitObjectType};
use rosu_map::util::Pos;

/// `HitSampleInfo::new` for every i32 custom bank: the `NonZeroU32::new_unchecked` guard.
fn hit_sample_info_new() {
    let custom: i32 = kani::any();
    let volume: i32 = kani::any();
    let bank = if kani::any() { Some(SampleBank::Soft) } else { None };
    let s = HitSampleInfo::new(HitSampleInfo::HIT_CLAP, bank, custom, volume);
    assert!(s.suffix.map(|x| x.get()) == if custom >= 2 { Some(custom as u32) } else { None });
    assert!(s.bank_specified == bank.is_some());
    kani::cover!(custom >= 2, "suffix present");
    kani::cover!(custom < 0, "negative custom bank: no suffix");
    core::mem::forget(s);
}

/// `SampleBankInfo::convert_sound_type` for every hit-sound byte and every bank info.
fn convert_sound_type() {
    let info = SampleBankInfo {
        filename: None,
        bank_for_normal: if kani::any() { Some(SampleBank::Drum) } else { None },
        bank_for_addition: if kani::any() { Some(SampleBank::Soft) } else { None },
        volume: kani::any(),
        custom_sample_bank: kani::any(),
    };
    let sound: u8 = kani::any();
    let list = info.convert_sound_type(HitSoundType::from(sound));
    let want = 1 + (sound & 2 != 0) as usize + (sound & 4 != 0) as usize + (sound & 8 != 0) as usize;
    assert!(list.len() == want);
    // round trip of the flags the encoder relies on
    let back: u8 = HitSoundType::from(list.as_slice()).into();
    assert!(back == sound & 14);
    kani::cover!(want == 4, "all additions");
    core::mem::forget(list);
}

/// `HitObjectType::from(&HitObject)` (used when re-encoding) for arbitrary combo offsets.
fn hit_object_type_from() {
    let offset: i32 = kani::any();
    kani::assume(offset >= 0 && offset <= 7); // what decoding can produce
    let h = HitObject {
        start_time: kani::any(),
        kind: HitObjectKind::Circle(HitObjectCircle { pos: Pos::new(kani::any(), kani::any()), new_combo: kani::any(), combo_offset: offset }),
        samples: Vec::new(),
    };
    let t: i32 = HitObjectType::from(&h).into();
    assert!(t & 1 != 0 && (t & 0x70) >> 4 == offset);
    kani::cover!(offset == 7, "largest combo offset");
    core::mem::forget(h);
}

macro_rules! c01 {
    ($name:ident, $unwind:expr, $body:expr) => {
        #[kani::proof]
        #[kani::unwind($unwind)]
        fn $name() {
            $body;
        }
    };
}

// @verif property=C01 tier=quick timeout=600 bounds="HitSampleInfo::new for every i32 custom bank and volume (unsafe NonZeroU32::new_unchecked guard)"
c01!(c01_hit_sample_info_new, 4, hit_sample_info_new());
// @verif property=C01 tier=thorough timeout=1800 mem=24 bounds="SampleBankInfo::convert_sound_type for every hit-sound byte, every volume / custom bank; HitSoundType round trip"
c01!(c01_convert_sound_type, 8, convert_sound_type());
// @verif property=C01 tier=quick timeout=600 bounds="HitObjectType::from(&HitObject) for circles with every combo offset 0..7"
c01!(c01_hit_object_type_from, 4, hit_object_type_from());
