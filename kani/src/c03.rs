//! C03 -- edits survive encode -> decode (text fields).
//!
//! The encoder writes a metadata text field as `Key: value` (format strings in encode.rs). The
//! decoder side of the round trip is decided here: for EVERY value `v` (no line breaks, no
//! surrounding white space) the line `Key: v` decodes to exactly `v` -- including values that
//! contain colons, `//`, commas, quotes or brackets.

use rosu_map::section::metadata::Metadata;
use rosu_map::{DecodeBeatmap, DecodeState};

use crate::refmodel::framing::is_ascii_ws;
use crate::stubs;

#[derive(Copy, Clone)]
enum Key {
    Title,
    TitleUnicode,
    Artist,
    ArtistUnicode,
    Creator,
    Version,
    Source,
    Tags,
}

fn key_text(k: Key) -> &'static str {
    match k {
        Key::Title => "Title: ",
        Key::TitleUnicode => "TitleUnicode: ",
        Key::Artist => "Artist: ",
        Key::ArtistUnicode => "ArtistUnicode: ",
        Key::Creator => "Creator: ",
        Key::Version => "Version: ",
        Key::Source => "Source: ",
        Key::Tags => "Tags: ",
    }
}

fn field(m: &Metadata, k: Key) -> &str {
    match k {
        Key::Title => &m.title,
        Key::TitleUnicode => &m.title_unicode,
        Key::Artist => &m.artist,
        Key::ArtistUnicode => &m.artist_unicode,
        Key::Creator => &m.creator,
        Key::Version => &m.version,
        Key::Source => &m.source,
        Key::Tags => &m.tags,
    }
}

/// `Key: v` with a symbolic ASCII value of exactly N bytes decodes to `v`.
fn clause_text_value<const N: usize, const TOTAL: usize>(k: Key) {
    let prefix = key_text(k).as_bytes();
    let mut buf = [0u8; TOTAL];
    let mut i = 0;
    while i < prefix.len() {
        buf[i] = prefix[i];
        i += 1;
    }
    let mut v = [0u8; N];
    let mut i = 0;
    while i < N {
        let b: u8 = kani::any();
        kani::assume(b < 0x80 && b != b'\n' && b != b'\r');
        v[i] = b;
        buf[prefix.len() + i] = b;
        i += 1;
    }
    // a value the format can represent: no surrounding white space
    if N > 0 {
        kani::assume(!is_ascii_ws(v[0]) && !is_ascii_ws(v[N - 1]));
    }
    let line = unsafe { core::str::from_utf8_unchecked(&buf[..prefix.len() + N]) };

    let mut state = <Metadata as DecodeBeatmap>::State::create(14);
    let res = Metadata::parse_metadata(&mut state, line);
    assert!(res.is_ok());
    let got = field(&state, k).as_bytes();
    assert!(got.len() == N, "the decoded value is not the written value");
    let mut i = 0;
    while i < N {
        assert!(got[i] == v[i], "the decoded value is not the written value");
        i += 1;
    }
    if N >= 3 {
        kani::cover!(v[1] == b':', "value containing a colon");
        kani::cover!(v[0] == b'/' && v[1] == b'/', "value starting with //");
        kani::cover!(v[0] == b'[' && v[N - 1] == b']', "header-like value");
    }
    kani::cover!(true, "decoded");
    core::mem::forget(state);
}

macro_rules! c03 {
    ($name:ident, $unwind:expr, $body:expr) => {
        #[kani::proof]
        #[kani::unwind($unwind)]
        #[kani::stub(core::slice::memchr::memchr, stubs::memchr_model)]
        #[kani::stub(core::slice::memchr::memrchr, stubs::memrchr_model)]
        fn $name() {
            $body;
        }
    };
}

// @verif property=C03 tier=quick timeout=900 mem=16 bounds="Metadata::parse_metadata on 'Title: ' + every ASCII value of exactly 3 bytes (no CR/LF, no surrounding white space)"
c03!(c03_title_v3, 14, clause_text_value::<3, 12>(Key::Title));
// @verif property=C03 tier=quick timeout=900 mem=16 bounds="'Title: ' + every 1-byte ASCII value" covers=1
c03!(c03_title_v1, 12, clause_text_value::<1, 10>(Key::Title));
// @verif property=C03 tier=quick timeout=900 mem=16 bounds="'Title: ' + the empty value" covers=1
c03!(c03_title_v0, 12, clause_text_value::<0, 10>(Key::Title));
// @verif property=C03 tier=quick timeout=900 mem=16 bounds="'Tags: ' + every 2-byte ASCII value" covers=1
c03!(c03_tags_v2, 12, clause_text_value::<2, 10>(Key::Tags));
// @verif property=C03 tier=quick timeout=900 mem=16 bounds="'ArtistUnicode: ' + every 2-byte ASCII value" covers=1
c03!(c03_artist_unicode_v2, 20, clause_text_value::<2, 18>(Key::ArtistUnicode));
