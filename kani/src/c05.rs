//! C05 -- file framing: which lines reach which section parser (line-classification level).

use std::ops::ControlFlow;

use rosu_map::section::colors::Colors;
use rosu_map::section::difficulty::Difficulty;
use rosu_map::section::editor::Editor;
use rosu_map::section::events::Events;
use rosu_map::section::general::General;
use rosu_map::section::hit_objects::HitObjects;
use rosu_map::section::metadata::Metadata;
use rosu_map::section::timing_points::TimingPoints;
use rosu_map::section::Section;
use rosu_map::{Beatmap, DecodeBeatmap};

use crate::refmodel::framing as rf;
use crate::stubs;

/// A symbolic ASCII line of at most N bytes (symbolic length).
fn any_ascii_line<const N: usize>(buf: &mut [u8; N]) -> &str {
    let len: usize = kani::any();
    kani::assume(len <= N);
    let mut i = 0;
    while i < N {
        let b: u8 = kani::any();
        kani::assume(b < 0x80);
        buf[i] = b;
        i += 1;
    }
    // SAFETY: ASCII
    unsafe { core::str::from_utf8_unchecked(&buf[..len]) }
}

fn section_idx(s: Section) -> usize {
    match s {
        Section::General => 0,
        Section::Editor => 1,
        Section::Metadata => 2,
        Section::Difficulty => 3,
        Section::Events => 4,
        Section::TimingPoints => 5,
        Section::Colors => 6,
        Section::HitObjects => 7,
        Section::Variables => 8,
        Section::CatchTheBeat => 9,
        Section::Mania => 10,
    }
}

/// Blank lines and `//` comment lines are skipped -- by every provided decoder type alike.
fn clause_skip<const N: usize>(all_types: bool) {
    let mut buf = [0u8; N];
    let line = any_ascii_line(&mut buf);
    let want = rf::skip_ascii(line.as_bytes());
    assert!(<Beatmap as DecodeBeatmap>::should_skip_line(line) == want);
    kani::cover!(want && line.len() > 2 && line.as_bytes()[0] == b' ', "indented comment");
    kani::cover!(want && line.is_empty(), "empty line");
    kani::cover!(!want && line.len() > 1 && line.as_bytes()[0] == b'/', "single slash is a record");
    if !all_types {
        return;
    }
    assert!(<General as DecodeBeatmap>::should_skip_line(line) == want);
    assert!(<Editor as DecodeBeatmap>::should_skip_line(line) == want);
    assert!(<Metadata as DecodeBeatmap>::should_skip_line(line) == want);
    assert!(<Difficulty as DecodeBeatmap>::should_skip_line(line) == want);
    assert!(<Events as DecodeBeatmap>::should_skip_line(line) == want);
    assert!(<Colors as DecodeBeatmap>::should_skip_line(line) == want);
    assert!(<TimingPoints as DecodeBeatmap>::should_skip_line(line) == want);
    assert!(<HitObjects as DecodeBeatmap>::should_skip_line(line) == want);
}

/// A line opens a section iff it is exactly `[Name]` for one of the 11 names.
fn clause_section<const N: usize>() {
    let mut buf = [0u8; N];
    let line = any_ascii_line(&mut buf);
    let want = rf::section_of(line.as_bytes());
    let got = Section::try_from_line(line);
    match (want, got) {
        (None, None) => {}
        (Some(k), Some(s)) => {
            assert!(section_idx(s) == k);
        }
        _ => panic!("section recognition differs from the reference"),
    }
    kani::cover!(want == Some(0), "[General]");
    kani::cover!(want == Some(10), "[Mania]");
    kani::cover!(want.is_none() && line.len() > 2 && line.as_bytes()[0] == b'[', "unknown bracketed line");
}

/// Section headers with a symbolic 1-byte prefix / suffix / infix mutation are not headers.
fn clause_section_mutations() {
    let names = rf::SECTION_NAMES;
    let which: usize = kani::any();
    kani::assume(which < names.len());
    let name = names[which].as_bytes();
    let mut buf = [0u8; 17];
    // "[Name]" with one extra symbolic ASCII byte inserted at a symbolic position
    let pos: usize = kani::any();
    let total = name.len() + 3;
    kani::assume(pos < total);
    let extra: u8 = kani::any();
    kani::assume(extra < 0x80);
    let mut src = [0u8; 16];
    src[0] = b'[';
    let mut i = 0;
    while i < name.len() {
        src[1 + i] = name[i];
        i += 1;
    }
    src[1 + name.len()] = b']';
    let mut i = 0;
    let mut j = 0;
    while i < total {
        if i == pos {
            buf[i] = extra;
        } else {
            buf[i] = src[j];
            j += 1;
        }
        i += 1;
    }
    let line = unsafe { core::str::from_utf8_unchecked(&buf[..total]) };
    let want = rf::section_of(line.as_bytes());
    let got = Section::try_from_line(line);
    assert!(want.is_some() == got.is_some());
    if let (Some(k), Some(s)) = (want, got) {
        assert!(section_idx(s) == k);
    }
    kani::cover!(want.is_none() && pos == 0, "indented header is not a header");
    kani::cover!(want.is_none() && pos == total - 1, "suffixed header is not a header");
}

/// A symbolic ASCII line of exactly N bytes.
fn any_ascii_line_exact<const N: usize>(buf: &mut [u8; N]) -> &str {
    let mut i = 0;
    while i < N {
        let b: u8 = kani::any();
        kani::assume(b < 0x80);
        buf[i] = b;
        i += 1;
    }
    // SAFETY: ASCII
    unsafe { core::str::from_utf8_unchecked(&buf[..]) }
}

/// The version line: prefix + symbolic tail of exactly N bytes.
fn clause_version_tail<const N: usize>() {
    let p = rf::VERSION_PREFIX;
    let mut buf = [0u8; 24];
    let mut i = 0;
    while i < p.len() {
        buf[i] = p[i];
        i += 1;
    }
    let len = N;
    let mut i = 0;
    while i < N {
        let b: u8 = kani::any();
        kani::assume(b < 0x80);
        buf[p.len() + i] = b;
        i += 1;
    }
    let line = unsafe { core::str::from_utf8_unchecked(&buf[..p.len() + len]) };
    let want = rf::version_of(line.as_bytes());
    let got = rosu_map::verif_hooks::try_version_from_line(line);
    match got {
        ControlFlow::Continue(()) => assert!(want == rf::VersionLine::Blank),
        ControlFlow::Break(Ok(v)) => assert!(want == rf::VersionLine::Version(v)),
        ControlFlow::Break(Err(true)) => assert!(want == rf::VersionLine::NotAVersionLine),
        ControlFlow::Break(Err(false)) => assert!(want == rf::VersionLine::BadNumber),
    }
    if N >= 2 {
        kani::cover!(matches!(want, rf::VersionLine::Version(v) if v > 9), "two-digit version");
    }
    if N >= 1 {
        kani::cover!(matches!(want, rf::VersionLine::Version(_)), "valid version");
        kani::cover!(want == rf::VersionLine::BadNumber, "suffixed / bad number");
    }
}

/// Lines as long as the prefix: a version line iff it IS the prefix.
fn clause_version_other17() {
    let mut buf = [0u8; 17];
    let line = any_ascii_line_exact(&mut buf);
    let want = rf::version_of(line.as_bytes());
    let got = rosu_map::verif_hooks::try_version_from_line(line);
    match got {
        ControlFlow::Continue(()) => panic!("a non-empty line was treated as blank"),
        ControlFlow::Break(Ok(_)) => panic!("no number can follow"),
        ControlFlow::Break(Err(true)) => assert!(want == rf::VersionLine::NotAVersionLine),
        ControlFlow::Break(Err(false)) => assert!(want == rf::VersionLine::BadNumber),
    }
    kani::cover!(want == rf::VersionLine::BadNumber, "the bare prefix");
}

/// Arbitrary short lines never count as version lines (they lack the prefix).
fn clause_version_other<const N: usize>() {
    let mut buf = [0u8; N];
    let line = any_ascii_line_exact(&mut buf);
    let want = rf::version_of(line.as_bytes());
    let got = rosu_map::verif_hooks::try_version_from_line(line);
    match got {
        ControlFlow::Continue(()) => assert!(want == rf::VersionLine::Blank),
        ControlFlow::Break(Err(true)) => assert!(want == rf::VersionLine::NotAVersionLine),
        _ => panic!("a line without the prefix was read as a version line"),
    }
    if N == 0 {
        kani::cover!(want == rf::VersionLine::Blank, "blank line before the version line");
    } else {
        kani::cover!(want == rf::VersionLine::NotAVersionLine, "no version line");
    }
}

/// `Decoder::curr_line` hands out the raw line with TRAILING white space removed and nothing
/// else touched (leading white space is significant: an indented header is not a header).
fn clause_curr_line<const N: usize>() {
    use rosu_map::verif_hooks::Decoder;
    let mut buf = [0u8; N];
    let line = any_ascii_line_exact(&mut buf);
    let empty: &[u8] = &[];
    let mut dec = Decoder::new(empty).unwrap();
    dec.verif_set_read_buf(line.as_bytes());
    let got = dec.curr_line().as_bytes();
    // reference: drop trailing ASCII white space only
    let mut end = N;
    while end > 0 && rf::is_ascii_ws(buf[end - 1]) {
        end -= 1;
    }
    assert!(got.len() == end);
    let mut i = 0;
    while i < end {
        assert!(got[i] == buf[i]);
        i += 1;
    }
    kani::cover!(end < N, "trailing white space (e.g. CR) removed");
    kani::cover!(end > 0 && rf::is_ascii_ws(buf[0]), "leading white space kept");
    core::mem::forget(dec);
}

/// Non-ASCII white space before a comment: a concrete Unicode white-space character
/// (U+00A0, U+3000, U+2003, U+0085) followed by 3 symbolic ASCII bytes; U+200B is NOT white space.
fn clause_skip_unicode_ws(prefix: &'static str, is_ws: bool) {
    let p = prefix.as_bytes();
    let mut buf = [0u8; 8];
    let mut i = 0;
    while i < p.len() {
        buf[i] = p[i];
        i += 1;
    }
    let mut tail = [0u8; 3];
    let mut i = 0;
    while i < 3 {
        let b: u8 = kani::any();
        kani::assume(b < 0x80);
        tail[i] = b;
        buf[p.len() + i] = b;
        i += 1;
    }
    let line = unsafe { core::str::from_utf8_unchecked(&buf[..p.len() + 3]) };
    // the line is not empty; after the (white-space) prefix the ASCII rule decides
    let want = if is_ws {
        let mut k = 0;
        while k < 3 && rf::is_ascii_ws(tail[k]) {
            k += 1;
        }
        k + 1 < 3 && tail[k] == b'/' && tail[k + 1] == b'/'
    } else {
        false
    };
    assert!(<Beatmap as DecodeBeatmap>::should_skip_line(line) == want);
    if is_ws {
        kani::cover!(want, "comment after non-ASCII white space is skipped");
    }
    kani::cover!(!want, "record");
}

macro_rules! c05 {
    ($name:ident, $unwind:expr, $body:expr) => {
        #[kani::proof]
        #[kani::unwind($unwind)]
        #[kani::stub(core::slice::memchr::memchr, stubs::memchr_model)]
        #[kani::stub(core::slice::memchr::memrchr, stubs::memrchr_model)]
        fn $name() {
            $body;
        }
    };
}

// @verif property=C05 tier=quick timeout=900 bounds="should_skip_line (default method, via Beatmap) on every ASCII line of <= 5 bytes (symbolic length)"
c05!(c05_skip_ascii5, 8, clause_skip::<5>(false));
// (that the 9 provided decoder types share this default method is decided under C07)
// @verif property=C05 tier=thorough timeout=2400 mem=16 bounds="should_skip_line (via Beatmap) on every ASCII line of <= 8 bytes"
c05!(c05_skip_ascii8, 11, clause_skip::<8>(false));

// @verif property=C05 tier=quick timeout=900 bounds="should_skip_line on U+3000 (ideographic space) + every 3-byte ASCII tail"
c05!(c05_skip_ws_u3000, 10, clause_skip_unicode_ws("\u{3000}", true));
// @verif property=C05 tier=quick timeout=900 bounds="should_skip_line on U+00A0 (no-break space) + every 3-byte ASCII tail"
c05!(c05_skip_ws_u00a0, 10, clause_skip_unicode_ws("\u{a0}", true));
// @verif property=C05 tier=quick timeout=900 bounds="should_skip_line on U+200B (zero width space: not white space) + every 3-byte ASCII tail" covers=1
c05!(c05_skip_not_ws_u200b, 10, clause_skip_unicode_ws("\u{200b}", false));
// @verif property=C05 tier=quick timeout=900 bounds="Section::try_from_line on every ASCII line of <= 14 bytes (symbolic length; covers all 11 header names)"
c05!(c05_section_ascii14, 17, clause_section::<14>());
// @verif property=C05 tier=quick timeout=900 bounds="each of the 11 real headers with one symbolic ASCII byte inserted at a symbolic position (indentation, suffix, infix)"
c05!(c05_section_mutations, 18, clause_section_mutations());

// @verif property=C05 tier=quick timeout=900 bounds="try_version_from_line on exactly 'osu file format v' (no number)" covers=0
c05!(c05_version_tail0, 23, clause_version_tail::<0>());
// @verif property=C05 tier=quick timeout=1200 bounds="try_version_from_line on 'osu file format v' + every 1-byte ASCII tail (real i32 parser, no number stub)" covers=2
c05!(c05_version_tail1, 23, clause_version_tail::<1>());
// @verif property=C05 tier=thorough timeout=1800 bounds="try_version_from_line on 'osu file format v' + every 2-byte ASCII tail" covers=3
c05!(c05_version_tail2, 23, clause_version_tail::<2>());
// @verif property=C05 tier=thorough timeout=2400 mem=16 bounds="try_version_from_line on 'osu file format v' + every 3-byte ASCII tail" covers=3
c05!(c05_version_tail3, 24, clause_version_tail::<3>());
// @verif property=C05 tier=thorough timeout=3000 mem=16 bounds="try_version_from_line on 'osu file format v' + every 4-byte ASCII tail" covers=3
c05!(c05_version_tail4, 25, clause_version_tail::<4>());
// @verif property=C05 tier=quick timeout=600 bounds="try_version_from_line on the empty line" covers=1
c05!(c05_version_other0, 20, clause_version_other::<0>());
// @verif property=C05 tier=quick timeout=600 bounds="try_version_from_line on every 3-byte ASCII line" covers=1
c05!(c05_version_other3, 20, clause_version_other::<3>());
// @verif property=C05 tier=thorough timeout=1200 bounds="try_version_from_line on every 17-byte ASCII line (length of the prefix: exactly one of them is the prefix)" covers=1
c05!(c05_version_other17, 20, clause_version_other17());

// @verif property=C05 tier=quick timeout=900 mem=16 bounds="Decoder::curr_line (UTF-8) on every ASCII raw line of exactly 4 bytes; from_utf8 replaced by its valid-input model"
#[kani::proof]
#[kani::unwind(8)]
#[kani::stub(core::slice::memchr::memchr, stubs::memchr_model)]
#[kani::stub(core::slice::memchr::memrchr, stubs::memrchr_model)]
#[kani::stub(core::str::converts::from_utf8, stubs::from_utf8_valid_only)]
fn c05_curr_line4() {
    clause_curr_line::<4>();
}

// Vacuity twin.
// @verif property=C05 tier=thorough expect=fail timeout=900 bounds="vacuity twin of c05_section_ascii14"
#[kani::proof]
#[kani::unwind(17)]
#[kani::stub(core::slice::memchr::memchr, stubs::memchr_model)]
#[kani::stub(core::slice::memchr::memrchr, stubs::memrchr_model)]
fn c05_vacuity_twin() {
    clause_section::<14>();
    assert!(false, "vacuity twin: end of harness is reachable");
}
