//! C07 -- specialised decoders agree with the full decoder.
//!
//! All nine provided types run the SAME generic driver (`DecodeBeatmap::decode`) and none
//! overrides `should_skip_line`; they differ only in which function each `parse_*` delegates to
//! and in the `From<State>` conversions. Both are decided here: (a) per line, the full decoder's
//! state and the specialised decoder's state end up with equal shared fields (same oracle
//! interpretation of the number tokens), (b) the conversions copy every shared field.

use rosu_map::section::colors::Colors;
use rosu_map::section::difficulty::Difficulty;
use rosu_map::section::editor::Editor;
use rosu_map::section::events::Events;
use rosu_map::section::general::General;
use rosu_map::section::hit_objects::HitObjects;
use rosu_map::section::metadata::Metadata;
use rosu_map::section::timing_points::TimingPoints;
use rosu_map::verif_hooks::timing_points as tp_hooks;
use rosu_map::{Beatmap, BeatmapState, DecodeBeatmap, DecodeState};

use crate::c11::oracle_proof;
use crate::stubs::{self, tok_line};

fn same_difficulty(a: &Difficulty, b: &Difficulty) -> bool {
    a.hp_drain_rate.to_bits() == b.hp_drain_rate.to_bits()
        && a.circle_size.to_bits() == b.circle_size.to_bits()
        && a.overall_difficulty.to_bits() == b.overall_difficulty.to_bits()
        && a.approach_rate.to_bits() == b.approach_rate.to_bits()
        && a.slider_multiplier.to_bits() == b.slider_multiplier.to_bits()
        && a.slider_tick_rate.to_bits() == b.slider_tick_rate.to_bits()
}

fn same_general(a: &General, b: &General) -> bool {
    a.audio_file.as_bytes() == b.audio_file.as_bytes()
        && a.audio_lead_in.to_bits() == b.audio_lead_in.to_bits()
        && a.preview_time == b.preview_time
        && a.default_sample_bank == b.default_sample_bank
        && a.default_sample_volume == b.default_sample_volume
        && a.stack_leniency.to_bits() == b.stack_leniency.to_bits()
        && a.mode == b.mode
        && a.letterbox_in_breaks == b.letterbox_in_breaks
        && a.special_style == b.special_style
        && a.widescreen_storyboard == b.widescreen_storyboard
        && a.epilepsy_warning == b.epilepsy_warning
        && a.samples_match_playback_rate == b.samples_match_playback_rate
        && a.countdown == b.countdown
        && a.countdown_offset == b.countdown_offset
}

/// A [Difficulty] line: Beatmap, HitObjects and Difficulty decoders agree.
fn difficulty_line(template: &'static str, f32_token: bool) {
    if f32_token {
        stubs::seed_f32(b'a');
    } else {
        stubs::seed_f64(b'a');
    }
    let line = tok_line(template);
    let mut full = BeatmapState::create(14);
    let mut ho = <HitObjects as DecodeBeatmap>::State::create(14);
    let mut di = <Difficulty as DecodeBeatmap>::State::create(14);
    let r_full = Beatmap::parse_difficulty(&mut full, line);
    let r_ho = HitObjects::parse_difficulty(&mut ho, line);
    let r_di = Difficulty::parse_difficulty(&mut di, line);
    assert!(r_full.is_ok() == r_di.is_ok() && r_ho.is_ok() == r_di.is_ok());
    assert!(same_difficulty(&full.hit_objects.difficulty.difficulty, &di.difficulty));
    assert!(same_difficulty(&ho.difficulty.difficulty, &di.difficulty));
    assert!(full.hit_objects.difficulty.has_approach_rate == di.has_approach_rate);
    // decoders that do not own the section ignore the line
    let mut ge = <General as DecodeBeatmap>::State::create(14);
    assert!(General::parse_difficulty(&mut ge, line).is_ok());
    assert!(same_general(&ge, &General::default()));
    kani::cover!(r_di.is_ok(), "line accepted by all");
    kani::cover!(r_di.is_err(), "line rejected by all");
    core::mem::forget((full, ho, di, ge));
}

/// A [General] line: Beatmap, HitObjects, TimingPoints and General decoders agree.
fn general_line(template: &'static str, f32_token: bool) {
    if f32_token {
        stubs::seed_f32(b'a');
    } else {
        stubs::seed_i32(b'a');
    }
    let line = tok_line(template);
    let mut full = BeatmapState::create(14);
    let mut ho = <HitObjects as DecodeBeatmap>::State::create(14);
    let mut tp = <TimingPoints as DecodeBeatmap>::State::create(14);
    let mut ge = <General as DecodeBeatmap>::State::create(14);
    let r_full = Beatmap::parse_general(&mut full, line);
    let r_ho = HitObjects::parse_general(&mut ho, line);
    let r_tp = TimingPoints::parse_general(&mut tp, line);
    let r_ge = General::parse_general(&mut ge, line);
    assert!(r_full.is_ok() == r_ge.is_ok() && r_ho.is_ok() == r_ge.is_ok() && r_tp.is_ok() == r_ge.is_ok());
    assert!(same_general(tp_hooks::state_parts(&full.hit_objects.timing_points).general, &ge));
    assert!(same_general(tp_hooks::state_parts(&ho.timing_points).general, &ge));
    assert!(same_general(tp_hooks::state_parts(&tp).general, &ge));
    kani::cover!(r_ge.is_ok(), "line accepted by all");
    kani::cover!(r_ge.is_err(), "line rejected by all");
    core::mem::forget((full, ho, tp, ge));
}

/// [Editor] / [Metadata] / [Colours] lines: Beatmap vs. the section's own decoder.
fn editor_metadata_colors_lines() {
    stubs::seed_f64(b'a');
    stubs::seed_i32(b'b');
    stubs::seed_u8(b'c');
    stubs::seed_u8(b'd');
    stubs::seed_u8(b'e');
    let mut full = BeatmapState::create(14);
    let mut ed = <Editor as DecodeBeatmap>::State::create(14);
    let mut me = <Metadata as DecodeBeatmap>::State::create(14);
    let mut co = <Colors as DecodeBeatmap>::State::create(14);
    let l1 = tok_line("DistanceSpacing: $a");
    assert!(Beatmap::parse_editor(&mut full, l1).is_ok() == Editor::parse_editor(&mut ed, l1).is_ok());
    let l2 = tok_line("BeatmapID:$b");
    assert!(Beatmap::parse_metadata(&mut full, l2).is_ok() == Metadata::parse_metadata(&mut me, l2).is_ok());
    // a metadata text value containing `//` is kept verbatim by both
    let l4 = "Source:http://a // b";
    assert!(Beatmap::parse_metadata(&mut full, l4).is_ok() == Metadata::parse_metadata(&mut me, l4).is_ok());
    assert!(full.metadata.source.as_bytes() == me.source.as_bytes(), "the full decoder and the Metadata decoder read different text");
    assert!(me.source.as_bytes() == b"http://a // b");
    let l3 = tok_line("Combo1 : $c,$d,$e");
    assert!(Beatmap::parse_colors(&mut full, l3).is_ok() == Colors::parse_colors(&mut co, l3).is_ok());
    assert!(full.editor.distance_spacing.to_bits() == ed.distance_spacing.to_bits());
    assert!(full.metadata.beatmap_id == me.beatmap_id);
    assert!(full.colors.custom_combo_colors.len() == co.custom_combo_colors.len());
    if co.custom_combo_colors.len() == 1 {
        assert!(full.colors.custom_combo_colors[0] == co.custom_combo_colors[0]);
    }
    // the other decoders ignore these sections
    assert!(Editor::parse_metadata(&mut ed, l2).is_ok() && ed.beat_divisor == 4);
    assert!(Metadata::parse_colors(&mut me, l3).is_ok());
    kani::cover!(co.custom_combo_colors.len() == 1, "colour accepted by both");
    kani::cover!(me.beatmap_id == -1, "id rejected by both");
    core::mem::forget((full, ed, me, co));
}

/// An [Events] break line: Beatmap, HitObjects and Events decoders agree.
fn events_line() {
    stubs::seed_f64(b'a');
    stubs::seed_f64(b'b');
    let line = tok_line("2,$a,$b");
    let mut full = BeatmapState::create(14);
    let mut ho = <HitObjects as DecodeBeatmap>::State::create(14);
    let mut ev = <Events as DecodeBeatmap>::State::create(14);
    let r1 = Beatmap::parse_events(&mut full, line);
    let r2 = HitObjects::parse_events(&mut ho, line);
    let r3 = Events::parse_events(&mut ev, line);
    assert!(r1.is_ok() == r3.is_ok() && r2.is_ok() == r3.is_ok());
    assert!(full.hit_objects.events.breaks.len() == ev.breaks.len() && ho.events.breaks.len() == ev.breaks.len());
    if ev.breaks.len() == 1 {
        let (a, b, c) = (&full.hit_objects.events.breaks[0], &ho.events.breaks[0], &ev.breaks[0]);
        assert!(a.start_time.to_bits() == c.start_time.to_bits() && a.end_time.to_bits() == c.end_time.to_bits());
        assert!(b.start_time.to_bits() == c.start_time.to_bits() && b.end_time.to_bits() == c.end_time.to_bits());
    }
    kani::cover!(ev.breaks.len() == 1, "break accepted by all");
    kani::cover!(r3.is_err(), "break rejected by all");
    core::mem::forget((full, ho, ev));
}

/// Two background-setting events in sequence: every decoder ends with the same background.
fn events_two_backgrounds() {
    let mut full = BeatmapState::create(14);
    let mut ho = <HitObjects as DecodeBeatmap>::State::create(14);
    let mut ev = <Events as DecodeBeatmap>::State::create(14);
    let l1 = "0,0,\"first.jpg\",0,0";
    let l2 = "Video,0,\"second.png\"";
    let mut k = 0;
    while k < 2 {
        let l = if k == 0 { l1 } else { l2 };
        let a = Beatmap::parse_events(&mut full, l).is_ok();
        let b = HitObjects::parse_events(&mut ho, l).is_ok();
        let c = Events::parse_events(&mut ev, l).is_ok();
        assert!(a == c && b == c);
        k += 1;
    }
    assert!(ev.background_file.as_bytes() == b"second.png");
    assert!(full.hit_objects.events.background_file.as_bytes() == ev.background_file.as_bytes(), "Beatmap and Events disagree on the background");
    assert!(ho.events.background_file.as_bytes() == ev.background_file.as_bytes(), "HitObjects and Events disagree on the background");
    kani::cover!(true, "reached");
    core::mem::forget((full, ho, ev));
}

/// The conversions `From<State>` copy every shared field (numeric fields symbolic).
fn conversions() {
    let mut st = BeatmapState::create(kani::any());
    let version = st.version;
    {
        let g = tp_hooks::state_general_mut(&mut st.hit_objects.timing_points);
        g.audio_lead_in = kani::any();
        g.preview_time = kani::any();
        g.default_sample_volume = kani::any();
        g.stack_leniency = kani::any();
        g.letterbox_in_breaks = kani::any();
        g.special_style = kani::any();
        g.widescreen_storyboard = kani::any();
        g.epilepsy_warning = kani::any();
        g.samples_match_playback_rate = kani::any();
        g.countdown_offset = kani::any();
    }
    let d = &mut st.hit_objects.difficulty.difficulty;
    d.hp_drain_rate = kani::any();
    d.circle_size = kani::any();
    d.overall_difficulty = kani::any();
    d.approach_rate = kani::any();
    d.slider_multiplier = kani::any();
    d.slider_tick_rate = kani::any();
    st.editor.distance_spacing = kani::any();
    st.editor.beat_divisor = kani::any();
    st.editor.grid_size = kani::any();
    st.editor.timeline_zoom = kani::any();
    st.metadata.beatmap_id = kani::any();
    st.metadata.beatmap_set_id = kani::any();
    // two breaks in arbitrary (also non-chronological) order: every decoder keeps file order
    let (b0s, b0e, b1s, b1e): (f64, f64, f64, f64) = (kani::any(), kani::any(), kani::any(), kani::any());
    st.hit_objects.events.breaks = Vec::with_capacity(2);
    st.hit_objects.events.breaks.push(rosu_map::section::events::BreakPeriod { start_time: b0s, end_time: b0e });
    st.hit_objects.events.breaks.push(rosu_map::section::events::BreakPeriod { start_time: b1s, end_time: b1e });
    let want_g = tp_hooks::state_parts(&st.hit_objects.timing_points).general.clone();
    let want_d = st.hit_objects.difficulty.difficulty.clone();
    let (ds, bd, gs, tz) = (st.editor.distance_spacing, st.editor.beat_divisor, st.editor.grid_size, st.editor.timeline_zoom);
    let (id, sid) = (st.metadata.beatmap_id, st.metadata.beatmap_set_id);
    let map = Beatmap::from(st);
    assert!(map.format_version == version);
    let got_g = General {
        audio_file: String::new(),
        audio_lead_in: map.audio_lead_in,
        preview_time: map.preview_time,
        default_sample_bank: map.default_sample_bank,
        default_sample_volume: map.default_sample_volume,
        stack_leniency: map.stack_leniency,
        mode: map.mode,
        letterbox_in_breaks: map.letterbox_in_breaks,
        special_style: map.special_style,
        widescreen_storyboard: map.widescreen_storyboard,
        epilepsy_warning: map.epilepsy_warning,
        samples_match_playback_rate: map.samples_match_playback_rate,
        countdown: map.countdown,
        countdown_offset: map.countdown_offset,
    };
    assert!(same_general(&got_g, &want_g));
    let got_d = Difficulty {
        hp_drain_rate: map.hp_drain_rate,
        circle_size: map.circle_size,
        overall_difficulty: map.overall_difficulty,
        approach_rate: map.approach_rate,
        slider_multiplier: map.slider_multiplier,
        slider_tick_rate: map.slider_tick_rate,
    };
    assert!(same_difficulty(&got_d, &want_d));
    assert!(map.distance_spacing.to_bits() == ds.to_bits() && map.beat_divisor == bd && map.grid_size == gs && map.timeline_zoom.to_bits() == tz.to_bits());
    assert!(map.beatmap_id == id && map.beatmap_set_id == sid);
    assert!(map.hit_objects.is_empty() && map.control_points.timing_points.is_empty());
    assert!(map.breaks.len() == 2, "breaks lost in conversion");
    assert!(map.breaks[0].start_time.to_bits() == b0s.to_bits() && map.breaks[0].end_time.to_bits() == b0e.to_bits(), "breaks reordered or altered in conversion");
    assert!(map.breaks[1].start_time.to_bits() == b1s.to_bits() && map.breaks[1].end_time.to_bits() == b1e.to_bits(), "breaks reordered or altered in conversion");
    kani::cover!(true, "converted");
    core::mem::forget(map);
}

// @verif property=C07 tier=quick timeout=1200 mem=16 bounds="[Difficulty] 'OverallDifficulty:$a' through Beatmap / HitObjects / Difficulty (+ General ignores it); every f32 / error"
oracle_proof!(c07_difficulty_od, 28, difficulty_line("OverallDifficulty:$a", true));
// @verif property=C07 tier=quick timeout=1200 mem=16 bounds="[Difficulty] 'SliderMultiplier: $a' through Beatmap / HitObjects / Difficulty; every f64 / error"
oracle_proof!(c07_difficulty_sm, 28, difficulty_line("SliderMultiplier: $a", false));
// @verif property=C07 tier=quick timeout=1200 mem=16 bounds="[General] 'PreviewTime: $a' through Beatmap / HitObjects / TimingPoints / General; every i32 / error"
oracle_proof!(c07_general_preview, 28, general_line("PreviewTime: $a", false));
// @verif property=C07 tier=quick timeout=1200 mem=16 bounds="[General] 'StackLeniency:$a' through the four decoders; every f32 / error"
oracle_proof!(c07_general_stack, 28, general_line("StackLeniency:$a", true));
// @verif property=C07 tier=quick timeout=1200 mem=16 bounds="[Editor] DistanceSpacing, [Metadata] BeatmapID, [Colours] Combo1 lines: Beatmap vs. the section's own decoder; other decoders ignore them"
oracle_proof!(c07_editor_metadata_colors, 28, editor_metadata_colors_lines());
// @verif property=C07 tier=quick timeout=1200 mem=16 bounds="[Events] two CONCRETE background-setting lines in sequence through Beatmap / HitObjects / Events: the last one wins in all three"
oracle_proof!(c07_events_two_backgrounds, 48, events_two_backgrounds());
// @verif property=C07 tier=quick timeout=1200 mem=16 bounds="[Events] break line '2,$a,$b' through Beatmap / HitObjects / Events"
oracle_proof!(c07_events_break, 28, events_line());
// @verif property=C07 tier=quick timeout=1200 mem=16 bounds="Beatmap::from(BeatmapState) with every numeric / flag field of General, Difficulty, Editor, Metadata and the version symbolic; two arbitrary breaks (order kept); empty object / control-point lists"
oracle_proof!(c07_conversions, 16, conversions());

/// A timing-point line: Beatmap, HitObjects and TimingPoints decoders leave the same pending
/// group behind (observed through the hook) and agree on acceptance.
fn timing_line() {
    use rosu_map::section::timing_points::{DifficultyPoint, EffectPoint, SamplePoint, TimingPoint};
    // beat length from the C12 alphabet: three copies of the velocity division at full width do
    // not finish (DESIGN.md §3.4)
    if let Some(b) = stubs::seed_f64(b'b') {
        let idx: u8 = kani::any();
        kani::assume(b.to_bits() == crate::c12::BEAT_LEN_ALPHABET[(idx % 18) as usize].to_bits());
    }
    let line = tok_line("10,$b");
    let mut full = BeatmapState::create(14);
    let mut ho = <HitObjects as DecodeBeatmap>::State::create(14);
    let mut tp = <TimingPoints as DecodeBeatmap>::State::create(14);
    let r1 = Beatmap::parse_timing_points(&mut full, line);
    let r2 = HitObjects::parse_timing_points(&mut ho, line);
    let r3 = TimingPoints::parse_timing_points(&mut tp, line);
    assert!(r1.is_ok() == r3.is_ok() && r2.is_ok() == r3.is_ok());
    let a = tp_hooks::state_parts(&full.hit_objects.timing_points);
    let b = tp_hooks::state_parts(&ho.timing_points);
    let c = tp_hooks::state_parts(&tp);
    let same_t = |x: &Option<TimingPoint>, y: &Option<TimingPoint>| match (x, y) {
        (None, None) => true,
        (Some(x), Some(y)) => x.time.to_bits() == y.time.to_bits() && x.beat_len.to_bits() == y.beat_len.to_bits() && x.omit_first_bar_line == y.omit_first_bar_line && x.time_signature == y.time_signature,
        _ => false,
    };
    let same_d = |x: &Option<DifficultyPoint>, y: &Option<DifficultyPoint>| match (x, y) {
        (None, None) => true,
        (Some(x), Some(y)) => x.slider_velocity.to_bits() == y.slider_velocity.to_bits() && x.generate_ticks == y.generate_ticks,
        _ => false,
    };
    let same_e = |x: &Option<EffectPoint>, y: &Option<EffectPoint>| match (x, y) {
        (None, None) => true,
        (Some(x), Some(y)) => x.scroll_speed.to_bits() == y.scroll_speed.to_bits() && x.kiai == y.kiai,
        _ => false,
    };
    let same_s = |x: &Option<SamplePoint>, y: &Option<SamplePoint>| match (x, y) {
        (None, None) => true,
        (Some(x), Some(y)) => x.sample_bank == y.sample_bank && x.sample_volume == y.sample_volume && x.custom_sample_bank == y.custom_sample_bank,
        _ => false,
    };
    assert!(same_t(a.pending_timing_point, c.pending_timing_point) && same_t(b.pending_timing_point, c.pending_timing_point));
    assert!(same_d(a.pending_difficulty_point, c.pending_difficulty_point) && same_d(b.pending_difficulty_point, c.pending_difficulty_point));
    assert!(same_e(a.pending_effect_point, c.pending_effect_point) && same_e(b.pending_effect_point, c.pending_effect_point));
    assert!(same_s(a.pending_sample_point, c.pending_sample_point) && same_s(b.pending_sample_point, c.pending_sample_point));
    assert!(a.pending_control_points_time.to_bits() == c.pending_control_points_time.to_bits());
    // a decoder that does not own the section ignores the line
    let mut ge = <General as DecodeBeatmap>::State::create(14);
    assert!(General::parse_timing_points(&mut ge, line).is_ok() && same_general(&ge, &General::default()));
    kani::cover!(r3.is_ok() && c.pending_timing_point.is_some(), "timing point pending in all three");
    kani::cover!(r3.is_err(), "line rejected by all three");
    core::mem::forget((full, ho, tp, ge));
}

/// A circle line: Beatmap and HitObjects decoders store the same object.
fn hit_object_line() {
    use rosu_map::section::hit_objects::HitObjectKind;
    stubs::seed_f32(b'a');
    stubs::seed_f32(b'b');
    stubs::seed_f64(b'c');
    let ty = stubs::seed_i32(b'd');
    if let Some(t) = ty {
        kani::assume(t & 1 != 0);
    }
    let line = tok_line("$a,$b,$c,$d,2");
    let mut full = BeatmapState::create(14);
    let mut ho = <HitObjects as DecodeBeatmap>::State::create(14);
    let r1 = Beatmap::parse_hit_objects(&mut full, line);
    let r2 = HitObjects::parse_hit_objects(&mut ho, line);
    assert!(r1.is_ok() == r2.is_ok());
    assert!(full.hit_objects.hit_objects.len() == ho.hit_objects.len());
    if ho.hit_objects.len() == 1 {
        let (x, y) = (&full.hit_objects.hit_objects[0], &ho.hit_objects[0]);
        assert!(x.start_time.to_bits() == y.start_time.to_bits() && x.samples.len() == y.samples.len());
        match (&x.kind, &y.kind) {
            (HitObjectKind::Circle(p), HitObjectKind::Circle(q)) => {
                assert!(p.pos.x.to_bits() == q.pos.x.to_bits() && p.pos.y.to_bits() == q.pos.y.to_bits());
                assert!(p.new_combo == q.new_combo && p.combo_offset == q.combo_offset);
            }
            _ => panic!("kinds differ"),
        }
        kani::cover!(true, "circle stored by both");
    }
    // decoders that do not own the section ignore the line
    let mut ev = <Events as DecodeBeatmap>::State::create(14);
    assert!(Events::parse_hit_objects(&mut ev, line).is_ok() && ev.breaks.is_empty() && ev.background_file.is_empty());
    kani::cover!(r2.is_err(), "line rejected by both");
    core::mem::forget((full, ho, ev));
}

// @verif property=C07 tier=quick timeout=1500 mem=24 bounds="timing line '10,$b' (beat length from the 18-value alphabet / error) through Beatmap / HitObjects / TimingPoints: equal acceptance and equal pending group; General ignores it"
oracle_proof!(c07_timing_line, 32, timing_line());
// @verif property=C07 tier=quick timeout=1500 mem=24 bounds="circle line '$a,$b,$c,$d,2' through Beatmap / HitObjects: equal acceptance and equal stored object; Events ignores it"
oracle_proof!(c07_hit_object_line, 32, hit_object_line());
