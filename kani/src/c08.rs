//! C08 -- the result depends on the bytes only, not on how they are delivered.
//!
//! rosu-map's own schedule-sensitive code is the BOM sniffing in `Decoder::new`. A harness-side
//! `BufRead` delivers symbolic data in chunks of symbolic size and reports `Interrupted` (and,
//! optionally, one hard error) at symbolic points. Oracle: after `Decoder::new` the detected
//! encoding is `from_bom(data)` and the bytes still to come -- the decoder's re-chained sniffed
//! bytes followed by what the reader has not handed out yet -- are exactly `data` minus the BOM.

use std::io::{self, BufRead, ErrorKind, Read};

use rosu_map::verif_hooks::{Decoder, Encoding};

pub struct ChunkReader<'a> {
    data: &'a [u8],
    pos: usize,
    /// end of the chunk currently held in the reader's internal buffer
    chunk_end: usize,
    interrupts_left: u8,
    /// fail with a hard error at this refill (counted from 0); u8::MAX = never
    fail_at_refill: u8,
    refills: u8,
    pub hard_error_returned: bool,
}

impl<'a> ChunkReader<'a> {
    fn new(data: &'a [u8], max_interrupts: u8, may_fail: bool) -> Self {
        let fail_at_refill = if may_fail { kani::any() } else { u8::MAX };
        Self {
            data,
            pos: 0,
            chunk_end: 0,
            interrupts_left: max_interrupts,
            fail_at_refill,
            refills: 0,
            hard_error_returned: false,
        }
    }
}

impl Read for ChunkReader<'_> {
    fn read(&mut self, buf: &mut [u8]) -> io::Result<usize> {
        let avail = self.fill_buf()?;
        let n = if avail.len() < buf.len() { avail.len() } else { buf.len() };
        let mut i = 0;
        while i < n {
            buf[i] = avail[i];
            i += 1;
        }
        self.consume(n);
        Ok(n)
    }
}

impl BufRead for ChunkReader<'_> {
    fn fill_buf(&mut self) -> io::Result<&[u8]> {
        if self.pos == self.chunk_end {
            // internal buffer empty: the underlying source is read
            if self.interrupts_left > 0 && kani::any() {
                self.interrupts_left -= 1;
                return Err(io::Error::from(ErrorKind::Interrupted));
            }
            if self.refills == self.fail_at_refill {
                self.hard_error_returned = true;
                return Err(io::Error::from(ErrorKind::TimedOut));
            }
            if self.refills < u8::MAX - 1 {
                self.refills += 1;
            }
            let remaining = self.data.len() - self.pos;
            if remaining > 0 {
                let k: usize = kani::any();
                kani::assume(k >= 1 && k <= remaining);
                self.chunk_end = self.pos + k;
            }
        }
        Ok(&self.data[self.pos..self.chunk_end])
    }

    fn consume(&mut self, amt: usize) {
        assert!(amt <= self.chunk_end - self.pos, "consume() beyond what fill_buf() returned");
        self.pos += amt;
    }
}

/// Reference BOM table, written from the statement.
fn ref_bom(data: &[u8]) -> (u8, usize) {
    // 0 = UTF-8, 1 = UTF-16LE, 2 = UTF-16BE
    if data.len() >= 3 && data[0] == 0xEF && data[1] == 0xBB && data[2] == 0xBF {
        (0, 3)
    } else if data.len() >= 2 && data[0] == 0xFF && data[1] == 0xFE {
        (1, 2)
    } else if data.len() >= 2 && data[0] == 0xFE && data[1] == 0xFF {
        (2, 2)
    } else {
        (0, 0)
    }
}

fn enc_code(e: Encoding) -> u8 {
    match e {
        Encoding::Utf8 => 0,
        Encoding::Utf16LE => 1,
        Encoding::Utf16BE => 2,
    }
}

fn sniff<const N: usize>(max_interrupts: u8, may_fail: bool) {
    let data: [u8; N] = kani::any();
    let reader = ChunkReader::new(&data, max_interrupts, may_fail);
    let (want_enc, bom_len) = ref_bom(&data);
    match Decoder::new(reader) {
        Ok(mut dec) => {
            assert!(enc_code(dec.verif_encoding()) == want_enc);
            // what is still to come: re-chained sniffed bytes, then the reader's rest
            let sniffed_len = dec.verif_sniffed().len();
            let reader_pos = dec.verif_inner().pos;
            assert!(!dec.verif_inner().hard_error_returned, "a hard reader error was swallowed");
            assert!(reader_pos >= sniffed_len);
            assert!(reader_pos - sniffed_len == bom_len, "bytes lost or duplicated while sniffing");
            let mut i = 0;
            while i < sniffed_len {
                assert!(dec.verif_sniffed()[i] == data[bom_len + i]);
                i += 1;
            }
            kani::cover!(bom_len == 3, "UTF-8 BOM");
            kani::cover!(bom_len == 2 && want_enc == 1, "UTF-16LE BOM");
            kani::cover!(bom_len == 2 && want_enc == 2, "UTF-16BE BOM");
            kani::cover!(bom_len == 0 && N > 0, "no BOM");
            core::mem::forget(dec);
        }
        Err(e) => {
            // only a hard reader error may surface, and it surfaces unchanged
            assert!(may_fail);
            assert!(e.kind() == ErrorKind::TimedOut);
            kani::cover!(true, "hard reader error surfaced");
            core::mem::forget(e);
        }
    }
}

macro_rules! c08 {
    ($name:ident, $n:expr, $intr:expr, $fail:expr, $unwind:expr) => {
        #[kani::proof]
        #[kani::unwind($unwind)]
        fn $name() {
            sniff::<$n>($intr, $fail);
        }
    };
}

// @verif property=C08 tier=quick timeout=600 bounds="data: 0 bytes; <= 2 Interrupted results" covers=0
c08!(c08_sniff_n0, 0, 2, false, 8);
// @verif property=C08 tier=quick timeout=600 bounds="data: 1 arbitrary byte; every chunk schedule; <= 2 Interrupted results at symbolic refills" covers=1
c08!(c08_sniff_n1, 1, 2, false, 8);
// @verif property=C08 tier=quick timeout=600 bounds="data: 2 arbitrary bytes; every chunk schedule (sizes 1..2); <= 2 Interrupted" covers=3
c08!(c08_sniff_n2, 2, 2, false, 8);
// @verif property=C08,C01 tier=quick timeout=600 bounds="data: 3 arbitrary bytes; every chunk schedule (sizes 1..3); <= 2 Interrupted" covers=4
c08!(c08_sniff_n3, 3, 2, false, 8);
// @verif property=C08,C01 tier=quick timeout=900 bounds="data: 5 arbitrary bytes (all BOMs, BOM prefixes, non-BOMs + payload); every chunk schedule (sizes 1..5); <= 3 Interrupted" covers=4
c08!(c08_sniff_n5, 5, 3, false, 10);
// @verif property=C08,C01 tier=quick timeout=900 bounds="data: 4 arbitrary bytes; every chunk schedule; <= 2 Interrupted; one hard TimedOut error at a symbolic refill" covers=5
c08!(c08_sniff_n4_fault, 4, 2, true, 10);
// @verif property=C08 tier=thorough timeout=1800 bounds="data: 7 arbitrary bytes; every chunk schedule (sizes 1..7); <= 4 Interrupted" covers=4
c08!(c08_sniff_n7, 7, 4, false, 14);

// Vacuity twin.
// @verif property=C08 tier=thorough expect=fail timeout=900 bounds="vacuity twin of c08_sniff_n3"
#[kani::proof]
#[kani::unwind(8)]
fn c08_vacuity_twin() {
    sniff::<3>(2, false);
    assert!(false, "vacuity twin: end of harness is reachable");
}
