//! C10 -- text encoding is transparent (transcoding level).
//!
//! `Encoding::from_bom` / `Encoding::decode` on fully symbolic short inputs against a reference
//! transcoder written from the Unicode standard (refmodel::utf8).

use rosu_map::verif_hooks::Encoding;

use crate::refmodel::utf8 as ru;

fn same_bytes(a: &[u8], b: &[u8]) -> bool {
    if a.len() != b.len() {
        return false;
    }
    let mut i = 0;
    while i < a.len() {
        if a[i] != b[i] {
            return false;
        }
        i += 1;
    }
    true
}

/// UTF-8 input of exactly N arbitrary bytes: valid text comes back unchanged, every maximal
/// ill-formed subsequence becomes one U+FFFD (as `String::from_utf8_lossy` does).
fn clause_utf8<const N: usize, const OUT: usize>() {
    let src: [u8; N] = kani::any();
    let mut dst = String::with_capacity(32);
    // whatever an earlier line left in the shared decode buffer must not matter
    dst.push_str("xy");
    let got = Encoding::Utf8.decode(&src, &mut dst);
    let mut want = [0u8; OUT];
    let n = ru::lossy::<OUT>(&src, &mut want);
    assert!(same_bytes(got.as_bytes(), &want[..n]));
    kani::cover!(ru::is_valid_utf8(&src) && N > 0 && src[0] >= 0x80, "valid non-ASCII text");
    kani::cover!(!ru::is_valid_utf8(&src), "invalid bytes replaced");
    core::mem::forget(dst);
}

/// UTF-16 input: K arbitrary code units (+ an optional odd trailing byte, which is dropped).
fn clause_utf16<const K: usize, const BYTES: usize, const OUT: usize>(le: bool, odd_tail: bool) {
    let units: [u16; K] = kani::any();
    let mut src = [0u8; BYTES];
    let mut i = 0;
    while i < K {
        let b = if le { units[i].to_le_bytes() } else { units[i].to_be_bytes() };
        src[2 * i] = b[0];
        src[2 * i + 1] = b[1];
        i += 1;
    }
    let len = if odd_tail {
        src[2 * K] = kani::any();
        2 * K + 1
    } else {
        2 * K
    };
    let mut dst = String::with_capacity(32);
    // whatever an earlier line left in the shared decode buffer must not matter
    dst.push_str("xy");
    let enc = if le { Encoding::Utf16LE } else { Encoding::Utf16BE };
    let got = enc.decode(&src[..len], &mut dst);
    let mut want = [0u8; OUT];
    let n = ru::utf16_to_utf8::<OUT>(&units, &mut want);
    assert!(same_bytes(got.as_bytes(), &want[..n]));
    if K >= 2 {
        kani::cover!(units[0] >= 0xD800 && units[0] <= 0xDBFF && units[1] >= 0xDC00 && units[1] <= 0xDFFF, "surrogate pair");
        kani::cover!(units[0] >= 0xDC00 && units[0] <= 0xDFFF, "unpaired low surrogate replaced");
    }
    if K >= 1 {
        kani::cover!(units[K - 1] >= 0xD800 && units[K - 1] <= 0xDBFF, "trailing high surrogate replaced");
        kani::cover!(units[0] == 0x4E0A, "a BMP character whose unit contains the byte 0x0A");
    }
    core::mem::forget(dst);
}

/// The BOM table: exactly EF BB BF -> UTF-8/3, FF FE -> UTF-16LE/2, FE FF -> UTF-16BE/2, else UTF-8/0.
fn clause_bom<const N: usize>() {
    let data: [u8; N] = kani::any();
    let len: usize = kani::any();
    kani::assume(len <= N);
    let d = &data[..len];
    let (enc, n) = Encoding::from_bom(d);
    let code = match enc {
        Encoding::Utf8 => 0,
        Encoding::Utf16LE => 1,
        Encoding::Utf16BE => 2,
    };
    let want = if len >= 3 && d[0] == 0xEF && d[1] == 0xBB && d[2] == 0xBF {
        (0, 3)
    } else if len >= 2 && d[0] == 0xFF && d[1] == 0xFE {
        (1, 2)
    } else if len >= 2 && d[0] == 0xFE && d[1] == 0xFF {
        (2, 2)
    } else {
        (0, 0)
    };
    assert!((code, n) == want);
    kani::cover!(want == (0, 3), "UTF-8 BOM");
    kani::cover!(want == (1, 2), "UTF-16LE BOM");
    kani::cover!(want == (2, 2), "UTF-16BE BOM");
    kani::cover!(want == (0, 0) && len == 2 && d[0] == 0xEF, "truncated UTF-8 BOM is no BOM");
}

/// The UTF-16 unit iterators pair bytes in the stated byte order and drop an odd trailing byte.
fn clause_units<const N: usize>() {
    use rosu_map::verif_hooks::{U16BeIterator, U16LeIterator};
    let data: [u8; N] = kani::any();
    let len: usize = kani::any();
    kani::assume(len <= N);
    let d = &data[..len];
    let mut le = U16LeIterator::new(d);
    let mut be = U16BeIterator::new(d);
    assert!(le.size_hint() == (len / 2, Some(len / 2)));
    let mut i = 0;
    while i + 1 < len {
        let l = le.next();
        let b = be.next();
        assert!(l == Some((d[i] as u16) | ((d[i + 1] as u16) << 8)));
        assert!(b == Some(((d[i] as u16) << 8) | (d[i + 1] as u16)));
        i += 2;
    }
    assert!(le.next().is_none() && be.next().is_none());
    kani::cover!(len % 2 == 1 && len > 1, "odd trailing byte dropped");
    kani::cover!(len == 0, "empty input");
}

macro_rules! c10 {
    ($name:ident, $unwind:expr, $body:expr) => {
        #[kani::proof]
        #[kani::unwind($unwind)]
        fn $name() {
            $body;
        }
    };
}

// @verif property=C10,C01 tier=quick timeout=600 bounds="Encoding::from_bom on every byte string of <= 4 bytes"
c10!(c10_bom4, 6, clause_bom::<4>());
// @verif property=C10,C01 tier=quick timeout=600 bounds="U16LeIterator / U16BeIterator on every byte string of <= 5 bytes (symbolic length)"
c10!(c10_units5, 8, clause_units::<5>());
// @verif property=EXP tier=thorough timeout=3000 mem=32 bounds="Encoding::Utf8.decode on every 1-byte string" covers=1
c10!(c10_utf8_n1, 8, clause_utf8::<1, 3>());
// @verif property=EXP tier=thorough timeout=3000 mem=28 bounds="Encoding::Utf16LE.decode on every sequence of 2 code units (all BMP scalars, all surrogate pairings)"
c10!(c10_utf16le_k2, 8, clause_utf16::<2, 5, 8>(true, false));
// @verif property=C10,C01 tier=quick timeout=900 bounds="Encoding::Utf16BE.decode on 1 code unit + an arbitrary odd trailing byte" covers=2
c10!(c10_utf16be_k1_odd, 8, clause_utf16::<1, 3, 4>(false, true));
// @verif property=C10,C01 tier=quick timeout=900 bounds="Encoding::Utf16LE.decode on the empty input and on 1 code unit without tail" covers=2
c10!(c10_utf16le_k1, 8, clause_utf16::<1, 3, 4>(true, false));
// @verif property=C10,C01 tier=quick timeout=900 bounds="Encoding::Utf16LE.decode on 1 code unit + an arbitrary odd trailing byte" covers=2
c10!(c10_utf16le_k1_odd, 8, clause_utf16::<1, 3, 4>(true, true));
// Vacuity twin.
// @verif property=C10 tier=thorough expect=fail timeout=900 bounds="vacuity twin of c10_utf16le_k1_odd"
#[kani::proof]
#[kani::unwind(8)]
fn c10_vacuity_twin() {
    clause_utf16::<1, 3, 4>(true, true);
    assert!(false, "vacuity twin: end of harness is reachable");
}

/// Two code units, the first a CONCRETE high surrogate (0xD83C), the second arbitrary: a valid pair
/// gives one supplementary character, anything else gives U+FFFD followed by the second unit's own
/// decoding.
fn clause_utf16_after_high_surrogate(le: bool, first: u16) {
    let second: u16 = kani::any();
    let units = [first, second];
    let mut src = [0u8; 4];
    let mut i = 0;
    while i < 2 {
        let b = if le { units[i].to_le_bytes() } else { units[i].to_be_bytes() };
        src[2 * i] = b[0];
        src[2 * i + 1] = b[1];
        i += 1;
    }
    let mut dst = String::with_capacity(32);
    dst.push_str("xy");
    let enc = if le { Encoding::Utf16LE } else { Encoding::Utf16BE };
    let got = enc.decode(&src, &mut dst);
    let mut want = [0u8; 8];
    let n = ru::utf16_to_utf8::<8>(&units, &mut want);
    assert!(same_bytes(got.as_bytes(), &want[..n]));
    kani::cover!(second >= 0xDC00 && second <= 0xDFFF, "second unit is a low surrogate");
    kani::cover!(second == 0x0062, "second unit is an ordinary character");
    core::mem::forget(dst);
}

// @verif property=C10,C01 tier=quick timeout=1200 mem=20 bounds="Encoding::Utf16LE.decode on the CONCRETE high surrogate D83C followed by EVERY second code unit (valid pairs, unpaired high surrogate + anything)"
c10!(c10_utf16le_after_high, 8, clause_utf16_after_high_surrogate(true, 0xD83C));
// @verif property=C10,C01 tier=quick timeout=1200 mem=20 bounds="Encoding::Utf16BE.decode on the concrete high surrogate D83C followed by every second code unit"
c10!(c10_utf16be_after_high, 8, clause_utf16_after_high_surrogate(false, 0xD83C));
// @verif property=C10,C01 tier=quick timeout=1200 mem=20 bounds="Encoding::Utf16LE.decode on the concrete unpaired LOW surrogate DC00 followed by every second code unit"
c10!(c10_utf16le_after_low, 8, clause_utf16_after_high_surrogate(true, 0xDC00));
// @verif property=C10,C01 tier=quick timeout=1200 mem=20 bounds="Encoding::Utf16BE.decode on the concrete character U+4E0A followed by every second code unit"
c10!(c10_utf16be_after_bmp, 8, clause_utf16_after_high_surrogate(false, 0x4E0A));

// (Even CONCRETE invalid UTF-8 inputs -- 'ab E3 81 cd', 'abc E3 81' -- do not get through
// `core::str::from_utf8` + the lossy loop within 900 s: the validator's word-at-a-time path is keyed
// on pointer alignment, which is non-deterministic for CBMC. The UTF-8 lossy clause stays outside.)
