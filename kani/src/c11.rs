//! C11 -- key/value, event and colour records decode per the format rules.
//!
//! One template line per recognised key; its number token is interpreted by the number oracle,
//! so the conversion is decided for EVERY value of the field's type (and for parse failure),
//! from an ARBITRARY pre-state of the section.

use rosu_map::section::difficulty::{Difficulty, DifficultyState};
use rosu_map::DecodeBeatmap;

use crate::refmodel::numbers::*;
use crate::stubs::{self, tok_line};

macro_rules! oracle_proof {
    ($name:ident, $unwind:expr, $body:expr) => {
        #[kani::proof]
        #[kani::unwind($unwind)]
        #[kani::stub(core::slice::memchr::memchr, stubs::memchr_model)]
        #[kani::stub(core::slice::memchr::memrchr, stubs::memrchr_model)]
        #[kani::stub(<f64 as core::str::FromStr>::from_str, stubs::f64_from_str)]
        #[kani::stub(<f32 as core::str::FromStr>::from_str, stubs::f32_from_str)]
        #[kani::stub(<i32 as core::str::FromStr>::from_str, stubs::i32_from_str)]
        #[kani::stub(<u8 as core::str::FromStr>::from_str, stubs::u8_from_str)]
        fn $name() {
            $body;
        }
    };
}
pub(crate) use oracle_proof;

// ------------------------------------------------------------------------------------------
// [Difficulty]
// ------------------------------------------------------------------------------------------

#[derive(Copy, Clone)]
struct Diff {
    hp: f32,
    cs: f32,
    od: f32,
    ar: f32,
    sm: f64,
    tr: f64,
    has_ar: bool,
}

fn any_diff_state() -> (DifficultyState, Diff) {
    let d = Diff {
        hp: kani::any(),
        cs: kani::any(),
        od: kani::any(),
        ar: kani::any(),
        sm: kani::any(),
        tr: kani::any(),
        has_ar: kani::any(),
    };
    let st = DifficultyState {
        has_approach_rate: d.has_ar,
        difficulty: Difficulty {
            hp_drain_rate: d.hp,
            circle_size: d.cs,
            overall_difficulty: d.od,
            approach_rate: d.ar,
            slider_multiplier: d.sm,
            slider_tick_rate: d.tr,
        },
    };
    (st, d)
}

fn diff_matches(st: &DifficultyState, d: &Diff) -> bool {
    let x = &st.difficulty;
    st.has_approach_rate == d.has_ar
        && x.hp_drain_rate.to_bits() == d.hp.to_bits()
        && x.circle_size.to_bits() == d.cs.to_bits()
        && x.overall_difficulty.to_bits() == d.od.to_bits()
        && x.approach_rate.to_bits() == d.ar.to_bits()
        && x.slider_multiplier.to_bits() == d.sm.to_bits()
        && x.slider_tick_rate.to_bits() == d.tr.to_bits()
}

#[derive(Copy, Clone, PartialEq)]
enum DKey {
    Hp,
    Cs,
    Od,
    Ar,
    Sm,
    Tr,
    Unknown,
}

fn difficulty_line(key: DKey, template: &'static str) {
    let (mut st, pre) = any_diff_state();
    // interpretation of the token `$a` in the field's type
    let f32v = if matches!(key, DKey::Hp | DKey::Cs | DKey::Od | DKey::Ar) { stubs::seed_f32(b'a') } else { None };
    let f64v = if matches!(key, DKey::Sm | DKey::Tr | DKey::Unknown) { stubs::seed_f64(b'a') } else { None };
    let line = tok_line(template);
    let res = Difficulty::parse_difficulty(&mut st, line);

    let mut want = pre;
    let accepted = match key {
        DKey::Hp => accept_f32(f32v).map(|v| want.hp = v).is_some(),
        DKey::Cs => accept_f32(f32v).map(|v| want.cs = v).is_some(),
        DKey::Od => accept_f32(f32v)
            .map(|v| {
                want.od = v;
                // approach rate follows overall difficulty until it was set itself
                if !pre.has_ar {
                    want.ar = v;
                }
            })
            .is_some(),
        DKey::Ar => accept_f32(f32v)
            .map(|v| {
                want.ar = v;
                want.has_ar = true;
            })
            .is_some(),
        DKey::Sm => accept_f64(f64v).map(|v| want.sm = clamp64(v, 0.4, 3.6)).is_some(),
        DKey::Tr => accept_f64(f64v).map(|v| want.tr = clamp64(v, 0.5, 8.0)).is_some(),
        // unknown keys are ignored without error
        DKey::Unknown => true,
    };
    assert!(res.is_ok() == accepted, "acceptance differs from the format rule");
    // exactly the documented field is set; on rejection nothing changes
    assert!(diff_matches(&st, &want), "fields after the line differ from the format rule");
    kani::cover!(accepted && key != DKey::Unknown, "value accepted");
    kani::cover!(!accepted, "value rejected, state untouched");
    core::mem::forget(st);
}

// @verif property=C11,C06,C01 tier=quick timeout=900 bounds="[Difficulty] 'HPDrainRate:$a' from an arbitrary section state; $a: parse error or every f32" stubs=numbers
oracle_proof!(c11_diff_hp, 24, difficulty_line(DKey::Hp, "HPDrainRate:$a"));
// @verif property=C11,C06,C01 tier=quick timeout=900 bounds="[Difficulty] 'OverallDifficulty: $a' (padded) from an arbitrary state incl. has_approach_rate; every f32"
oracle_proof!(c11_diff_od, 24, difficulty_line(DKey::Od, "OverallDifficulty: $a"));
// @verif property=C11,C06,C01 tier=quick timeout=900 bounds="[Difficulty] 'CircleSize:$a' from an arbitrary state; every f32"
oracle_proof!(c11_diff_cs, 24, difficulty_line(DKey::Cs, "CircleSize:$a"));
// @verif property=C11,C06,C01 tier=quick timeout=900 bounds="[Difficulty] 'ApproachRate:$a // comment' from an arbitrary state; every f32"
oracle_proof!(c11_diff_ar, 34, difficulty_line(DKey::Ar, "ApproachRate:$a // comment"));
// @verif property=C11,C06,C01 tier=quick timeout=900 bounds="[Difficulty] 'SliderMultiplier:$a' from an arbitrary state; every f64 (clamp [0.4,3.6])"
oracle_proof!(c11_diff_sm, 24, difficulty_line(DKey::Sm, "SliderMultiplier:$a"));
// @verif property=C11,C06,C01 tier=quick timeout=900 bounds="[Difficulty] 'SliderTickRate:$a' from an arbitrary state; every f64 (clamp [0.5,8])"
oracle_proof!(c11_diff_tr, 24, difficulty_line(DKey::Tr, "SliderTickRate:$a"));
// @verif property=C11,C06,C01 tier=quick timeout=900 bounds="[Difficulty] unknown key 'SliderTickrate:$a' (wrong case) leaves an arbitrary state untouched" covers=0
oracle_proof!(c11_diff_unknown, 24, difficulty_line(DKey::Unknown, "SliderTickrate:$a"));

// ------------------------------------------------------------------------------------------
// [General]
// ------------------------------------------------------------------------------------------

use rosu_map::section::general::{CountdownType, GameMode, General};
use rosu_map::section::hit_objects::hit_samples::SampleBank;

#[derive(Copy, Clone)]
struct Gen {
    lead_in: f64,
    preview: i32,
    bank: u8,
    volume: i32,
    stack: f32,
    mode: u8,
    letterbox: bool,
    special: bool,
    widescreen: bool,
    epilepsy: bool,
    samples_match: bool,
    countdown: u8,
    countdown_offset: i32,
}

fn bank_of(b: u8) -> SampleBank {
    match b & 3 {
        0 => SampleBank::None,
        1 => SampleBank::Normal,
        2 => SampleBank::Soft,
        _ => SampleBank::Drum,
    }
}
fn bank_code(b: SampleBank) -> u8 {
    match b {
        SampleBank::None => 0,
        SampleBank::Normal => 1,
        SampleBank::Soft => 2,
        SampleBank::Drum => 3,
    }
}
fn mode_of(m: u8) -> GameMode {
    match m & 3 {
        0 => GameMode::Osu,
        1 => GameMode::Taiko,
        2 => GameMode::Catch,
        _ => GameMode::Mania,
    }
}
fn mode_code(m: GameMode) -> u8 {
    match m {
        GameMode::Osu => 0,
        GameMode::Taiko => 1,
        GameMode::Catch => 2,
        GameMode::Mania => 3,
    }
}
fn countdown_of(c: u8) -> CountdownType {
    match c & 3 {
        0 => CountdownType::None,
        1 => CountdownType::Normal,
        2 => CountdownType::HalfSpeed,
        _ => CountdownType::DoubleSpeed,
    }
}
fn countdown_code(c: CountdownType) -> u8 {
    match c {
        CountdownType::None => 0,
        CountdownType::Normal => 1,
        CountdownType::HalfSpeed => 2,
        CountdownType::DoubleSpeed => 3,
    }
}

fn any_general() -> (General, Gen) {
    let g = Gen {
        lead_in: kani::any(),
        preview: kani::any(),
        bank: kani::any::<u8>() & 3,
        volume: kani::any(),
        stack: kani::any(),
        mode: kani::any::<u8>() & 3,
        letterbox: kani::any(),
        special: kani::any(),
        widescreen: kani::any(),
        epilepsy: kani::any(),
        samples_match: kani::any(),
        countdown: kani::any::<u8>() & 3,
        countdown_offset: kani::any(),
    };
    let st = General {
        audio_file: String::new(),
        audio_lead_in: g.lead_in,
        preview_time: g.preview,
        default_sample_bank: bank_of(g.bank),
        default_sample_volume: g.volume,
        stack_leniency: g.stack,
        mode: mode_of(g.mode),
        letterbox_in_breaks: g.letterbox,
        special_style: g.special,
        widescreen_storyboard: g.widescreen,
        epilepsy_warning: g.epilepsy,
        samples_match_playback_rate: g.samples_match,
        countdown: countdown_of(g.countdown),
        countdown_offset: g.countdown_offset,
    };
    (st, g)
}

fn general_matches(st: &General, g: &Gen) -> bool {
    st.audio_lead_in.to_bits() == g.lead_in.to_bits()
        && st.preview_time == g.preview
        && bank_code(st.default_sample_bank) == g.bank
        && st.default_sample_volume == g.volume
        && st.stack_leniency.to_bits() == g.stack.to_bits()
        && mode_code(st.mode) == g.mode
        && st.letterbox_in_breaks == g.letterbox
        && st.special_style == g.special
        && st.widescreen_storyboard == g.widescreen
        && st.epilepsy_warning == g.epilepsy
        && st.samples_match_playback_rate == g.samples_match
        && countdown_code(st.countdown) == g.countdown
        && st.countdown_offset == g.countdown_offset
}

#[derive(Copy, Clone, PartialEq)]
enum GKey {
    LeadIn,
    Preview,
    Volume,
    Stack,
    Letterbox,
    Special,
    Widescreen,
    Epilepsy,
    SamplesMatch,
    CountdownOffset,
}

fn general_number_line(key: GKey, template: &'static str) {
    let (mut st, pre) = any_general();
    let iv = if key != GKey::Stack { stubs::seed_i32(b'a') } else { None };
    let fv = if key == GKey::Stack { stubs::seed_f32(b'a') } else { None };
    let line = tok_line(template);
    let res = General::parse_general(&mut st, line);
    let mut want = pre;
    let i = accept_i32(iv);
    let accepted = match key {
        GKey::LeadIn => i.map(|v| want.lead_in = v as f64).is_some(),
        GKey::Preview => i.map(|v| want.preview = v).is_some(),
        GKey::Volume => i.map(|v| want.volume = v).is_some(),
        GKey::Stack => accept_f32(fv).map(|v| want.stack = v).is_some(),
        // a flag is true only for the value 1
        GKey::Letterbox => i.map(|v| want.letterbox = v == 1).is_some(),
        GKey::Special => i.map(|v| want.special = v == 1).is_some(),
        GKey::Widescreen => i.map(|v| want.widescreen = v == 1).is_some(),
        GKey::Epilepsy => i.map(|v| want.epilepsy = v == 1).is_some(),
        GKey::SamplesMatch => i.map(|v| want.samples_match = v == 1).is_some(),
        GKey::CountdownOffset => i.map(|v| want.countdown_offset = v).is_some(),
    };
    assert!(res.is_ok() == accepted, "acceptance differs from the format rule");
    assert!(general_matches(&st, &want), "fields after the line differ from the format rule");
    assert!(st.audio_file.is_empty());
    kani::cover!(accepted, "value accepted");
    kani::cover!(!accepted, "value rejected, state untouched");
    core::mem::forget(st);
}

// @verif property=C11,C06,C01 tier=quick timeout=900 bounds="[General] 'AudioLeadIn: $a' from an arbitrary state; every i32 / parse error"
oracle_proof!(c11_gen_lead_in, 24, general_number_line(GKey::LeadIn, "AudioLeadIn: $a"));
// @verif property=C11,C06,C01 tier=quick timeout=900 bounds="[General] 'PreviewTime: $a'; every i32"
oracle_proof!(c11_gen_preview, 24, general_number_line(GKey::Preview, "PreviewTime: $a"));
// @verif property=C11,C06,C01 tier=quick timeout=900 bounds="[General] 'SampleVolume: $a'; every i32"
oracle_proof!(c11_gen_volume, 24, general_number_line(GKey::Volume, "SampleVolume: $a"));
// @verif property=C11,C06,C01 tier=quick timeout=900 bounds="[General] 'StackLeniency: $a'; every f32"
oracle_proof!(c11_gen_stack, 24, general_number_line(GKey::Stack, "StackLeniency: $a"));
// @verif property=C11,C06,C01 tier=quick timeout=900 bounds="[General] 'LetterboxInBreaks: $a'; every i32 (flag true only for 1)"
oracle_proof!(c11_gen_letterbox, 24, general_number_line(GKey::Letterbox, "LetterboxInBreaks: $a"));
// @verif property=C11,C06,C01 tier=quick timeout=900 bounds="[General] 'SpecialStyle:$a'; every i32"
oracle_proof!(c11_gen_special, 24, general_number_line(GKey::Special, "SpecialStyle:$a"));
// @verif property=C11,C06,C01 tier=quick timeout=900 bounds="[General] 'WidescreenStoryboard: $a'; every i32"
oracle_proof!(c11_gen_widescreen, 28, general_number_line(GKey::Widescreen, "WidescreenStoryboard: $a"));
// @verif property=C11,C06,C01 tier=quick timeout=900 bounds="[General] 'EpilepsyWarning: $a'; every i32"
oracle_proof!(c11_gen_epilepsy, 24, general_number_line(GKey::Epilepsy, "EpilepsyWarning: $a"));
// @verif property=C11,C06,C01 tier=quick timeout=900 bounds="[General] 'SamplesMatchPlaybackRate: $a'; every i32"
oracle_proof!(c11_gen_samples_match, 32, general_number_line(GKey::SamplesMatch, "SamplesMatchPlaybackRate: $a"));
// @verif property=C11,C06,C01 tier=quick timeout=900 bounds="[General] 'CountdownOffset: $a'; every i32"
oracle_proof!(c11_gen_countdown_offset, 24, general_number_line(GKey::CountdownOffset, "CountdownOffset: $a"));

/// Enumerated keys of [General]: every accepted spelling maps to its value, anything else is an
/// error that leaves the state untouched. One concrete line per branch (the parser is called
/// inside the branch so that the text stays concrete).
fn general_enum_case(line: &'static str, ok: bool, set: fn(&mut Gen)) {
    let (mut st, pre) = any_general();
    let mut want = pre;
    if ok {
        set(&mut want);
    }
    let res = General::parse_general(&mut st, line);
    assert!(res.is_ok() == ok, "acceptance differs from the format rule");
    assert!(general_matches(&st, &want), "fields after the line differ from the format rule");
    core::mem::forget(st);
}

fn general_mode_lines() {
    match kani::any::<u8>() % 6 {
        0 => general_enum_case("Mode: 0", true, |g| g.mode = 0),
        1 => general_enum_case("Mode:1", true, |g| g.mode = 1),
        2 => general_enum_case("Mode: 2 // catch", true, |g| g.mode = 2),
        3 => general_enum_case("Mode: 3", true, |g| g.mode = 3),
        4 => general_enum_case("Mode: 4", false, |_| {}),
        _ => general_enum_case("Mode: 01", false, |_| {}),
    }
    kani::cover!(true, "reached");
}

fn general_sample_set_lines() {
    match kani::any::<u8>() % 5 {
        0 => general_enum_case("SampleSet: Soft", true, |g| g.bank = 2),
        1 => general_enum_case("SampleSet: 3", true, |g| g.bank = 3),
        2 => general_enum_case("SampleSet: None", true, |g| g.bank = 0),
        3 => general_enum_case("SampleSet: Normal", true, |g| g.bank = 1),
        _ => general_enum_case("SampleSet: soft", false, |_| {}),
    }
    kani::cover!(true, "reached");
}

fn general_countdown_lines() {
    match kani::any::<u8>() % 6 {
        0 => general_enum_case("Countdown: Half speed", true, |g| g.countdown = 2),
        1 => general_enum_case("Countdown: 3", true, |g| g.countdown = 3),
        2 => general_enum_case("Countdown: 0", true, |g| g.countdown = 0),
        3 => general_enum_case("Countdown: 4", false, |_| {}),
        4 => general_enum_case("Countdown", false, |_| {}), // known key without a value: rejected, untouched
        _ => general_enum_case("UnknownKey: 1", true, |_| {}), // unknown key: ignored
    }
    kani::cover!(true, "reached");
}

// @verif property=C11,C06,C01 tier=quick timeout=900 bounds="[General] Mode: 6 concrete spellings (0-3, comment-suffixed, 4, 01) from an arbitrary state"
oracle_proof!(c11_gen_mode, 24, general_mode_lines());
// @verif property=C11,C06,C01 tier=quick timeout=900 bounds="[General] SampleSet: 5 concrete spellings (names, number, wrong case) from an arbitrary state"
oracle_proof!(c11_gen_sample_set, 24, general_sample_set_lines());
// @verif property=C11,C06,C01 tier=quick timeout=900 bounds="[General] Countdown: 4 spellings + line without colon + unknown key, from an arbitrary state"
oracle_proof!(c11_gen_countdown, 24, general_countdown_lines());

// ------------------------------------------------------------------------------------------
// [Editor] and [Metadata] numbers
// ------------------------------------------------------------------------------------------

use rosu_map::section::editor::Editor;
use rosu_map::section::metadata::Metadata;

#[derive(Copy, Clone, PartialEq)]
enum EKey {
    DistanceSpacing,
    BeatDivisor,
    GridSize,
    TimelineZoom,
}

fn editor_number_line(key: EKey, template: &'static str) {
    let ds: f64 = kani::any();
    let bd: i32 = kani::any();
    let gs: i32 = kani::any();
    let tz: f64 = kani::any();
    let mut st = Editor { bookmarks: Vec::new(), distance_spacing: ds, beat_divisor: bd, grid_size: gs, timeline_zoom: tz };
    let fv = if matches!(key, EKey::DistanceSpacing | EKey::TimelineZoom) { stubs::seed_f64(b'a') } else { None };
    let iv = if matches!(key, EKey::BeatDivisor | EKey::GridSize) { stubs::seed_i32(b'a') } else { None };
    let res = Editor::parse_editor(&mut st, tok_line(template));
    let (mut wds, mut wbd, mut wgs, mut wtz) = (ds, bd, gs, tz);
    let accepted = match key {
        EKey::DistanceSpacing => accept_f64(fv).map(|v| wds = v).is_some(),
        EKey::TimelineZoom => accept_f64(fv).map(|v| wtz = v).is_some(),
        EKey::BeatDivisor => accept_i32(iv).map(|v| wbd = v).is_some(),
        EKey::GridSize => accept_i32(iv).map(|v| wgs = v).is_some(),
    };
    assert!(res.is_ok() == accepted, "acceptance differs from the format rule");
    assert!(st.distance_spacing.to_bits() == wds.to_bits() && st.beat_divisor == wbd && st.grid_size == wgs && st.timeline_zoom.to_bits() == wtz.to_bits());
    assert!(st.bookmarks.is_empty());
    kani::cover!(accepted, "value accepted");
    kani::cover!(!accepted, "value rejected, state untouched");
    core::mem::forget(st);
}

// @verif property=C11,C06,C01 tier=quick timeout=900 bounds="[Editor] 'DistanceSpacing: $a' from arbitrary numeric state; every f64"
oracle_proof!(c11_ed_distance_spacing, 24, editor_number_line(EKey::DistanceSpacing, "DistanceSpacing: $a"));
// @verif property=C11,C06,C01 tier=quick timeout=900 bounds="[Editor] 'BeatDivisor: $a'; every i32"
oracle_proof!(c11_ed_beat_divisor, 24, editor_number_line(EKey::BeatDivisor, "BeatDivisor: $a"));
// @verif property=C11,C06,C01 tier=quick timeout=900 bounds="[Editor] 'GridSize: $a'; every i32"
oracle_proof!(c11_ed_grid_size, 24, editor_number_line(EKey::GridSize, "GridSize: $a"));
// @verif property=C11,C06,C01 tier=quick timeout=900 bounds="[Editor] 'TimelineZoom: $a'; every f64"
oracle_proof!(c11_ed_timeline_zoom, 24, editor_number_line(EKey::TimelineZoom, "TimelineZoom: $a"));

// (Bookmarks: the list is built by `collect()` over a filter -- a Vec whose length depends on
// symbolic data; the harness for 'Bookmarks: $a,$b' did not finish in 900 s and is not registered.)

fn metadata_id_line(set_id: bool, template: &'static str) {
    let id: i32 = kani::any();
    let sid: i32 = kani::any();
    let mut st = Metadata::default();
    st.beatmap_id = id;
    st.beatmap_set_id = sid;
    let v = stubs::seed_i32(b'a');
    let res = Metadata::parse_metadata(&mut st, tok_line(template));
    let acc = accept_i32(v);
    assert!(res.is_ok() == acc.is_some(), "acceptance differs from the format rule");
    let (wid, wsid) = match (acc, set_id) {
        (Some(v), false) => (v, sid),
        (Some(v), true) => (id, v),
        (None, _) => (id, sid),
    };
    assert!(st.beatmap_id == wid && st.beatmap_set_id == wsid);
    assert!(st.title.is_empty() && st.tags.is_empty());
    kani::cover!(acc.is_some(), "value accepted");
    kani::cover!(acc.is_none(), "value rejected, state untouched");
    core::mem::forget(st);
}

// @verif property=C11,C06,C01 tier=quick timeout=900 bounds="[Metadata] 'BeatmapID:$a' from arbitrary ids; every i32"
oracle_proof!(c11_meta_id, 24, metadata_id_line(false, "BeatmapID:$a"));
// @verif property=C11,C06,C01 tier=quick timeout=900 bounds="[Metadata] 'BeatmapSetID: $a'; every i32"
oracle_proof!(c11_meta_set_id, 24, metadata_id_line(true, "BeatmapSetID: $a"));

// ------------------------------------------------------------------------------------------
// [Events] and [Colours]
// ------------------------------------------------------------------------------------------

use rosu_map::section::colors::{Color, Colors, CustomColor};
use rosu_map::section::events::{BreakPeriod, Events};

/// A break never ends before it starts; an invalid number rejects the line and adds nothing.
fn events_break_line(template: &'static str) {
    let mut st = Events::default();
    let p0: f64 = kani::any();
    let p1: f64 = kani::any();
    st.breaks = Vec::with_capacity(4);
    st.breaks.push(BreakPeriod { start_time: p0, end_time: p1 });
    let a = accept_f64(stubs::seed_f64(b'a'));
    let b = accept_f64(stubs::seed_f64(b'b'));
    let res = Events::parse_events(&mut st, tok_line(template));
    let accepted = a.is_some() && b.is_some();
    assert!(res.is_ok() == accepted, "acceptance differs from the format rule");
    assert!(st.breaks[0].start_time.to_bits() == p0.to_bits() && st.breaks[0].end_time.to_bits() == p1.to_bits());
    assert!(st.background_file.is_empty());
    if accepted {
        let (s, e) = (a.unwrap(), b.unwrap());
        assert!(st.breaks.len() == 2);
        assert!(st.breaks[1].start_time.to_bits() == s.to_bits());
        let want_end = if e > s { e } else { s };
        assert!(st.breaks[1].end_time == want_end);
        assert!(st.breaks[1].end_time >= st.breaks[1].start_time);
        kani::cover!(e < s, "end before start is pulled up to the start");
    } else {
        assert!(st.breaks.len() == 1);
        kani::cover!(a.is_some(), "bad end time rejects the whole line");
    }
    core::mem::forget(st);
}

// @verif property=C11,C06,C01 tier=quick timeout=900 mem=16 bounds="[Events] '2,$a,$b' after one arbitrary break; each time: parse error or every f64"
oracle_proof!(c11_ev_break_num, 24, events_break_line("2,$a,$b"));
// @verif property=C11,C06,C01 tier=quick timeout=900 mem=16 bounds="[Events] 'Break,$a,$b // c' after one arbitrary break"
oracle_proof!(c11_ev_break_name, 28, events_break_line("Break,$a,$b // c"));

/// Background / video / sprite precedence over concrete file names.
fn events_background_case(pre: &'static str, line: &'static str, ok: bool, want: &'static str) {
    let mut st = Events::default();
    st.background_file = String::from(pre);
    let res = Events::parse_events(&mut st, line);
    assert!(res.is_ok() == ok, "acceptance differs from the format rule");
    assert!(st.background_file.as_bytes() == want.as_bytes(), "background file differs from the precedence rule");
    assert!(st.breaks.is_empty());
    core::mem::forget(st);
}

// One harness per concrete line (a single harness branching over all lines ran out of memory on
// some seeded changes; per line the run is almost entirely constant-folded).
// @verif property=C11,C06,C01 tier=quick timeout=600 mem=12 bounds="[Events] concrete line 0: background line replaces the previous background"
oracle_proof!(c11_ev_line_00, 48, {
    events_background_case("old.png", "0,0,\"bg.jpg\",0,0", true, "bg.jpg");
    kani::cover!(true, "reached");
});
// @verif property=C11,C06,C01 tier=quick timeout=600 mem=12 bounds="[Events] concrete line 1: Background by name on an empty background"
oracle_proof!(c11_ev_line_01, 48, {
    events_background_case("", "Background,0,bg.jpg", true, "bg.jpg");
    kani::cover!(true, "reached");
});
// @verif property=C11,C06,C01 tier=quick timeout=600 mem=12 bounds="[Events] concrete line 2: video with image extension (upper case) is a background"
oracle_proof!(c11_ev_line_02, 48, {
    events_background_case("old.png", "Video,0,\"clip.JPG\"", true, "clip.JPG");
    kani::cover!(true, "reached");
});
// @verif property=C11,C06,C01 tier=quick timeout=600 mem=12 bounds="[Events] concrete line 3: real video (mp4) is not a background"
oracle_proof!(c11_ev_line_03, 48, {
    events_background_case("old.png", "1,0,\"clip.mp4\"", true, "old.png");
    kani::cover!(true, "reached");
});
// @verif property=C11,C06,C01 tier=quick timeout=600 mem=12 bounds="[Events] concrete line 4: real video, upper-case extension"
oracle_proof!(c11_ev_line_04, 48, {
    events_background_case("old.png", "Video,0,\"clip.AVI\"", true, "old.png");
    kani::cover!(true, "reached");
});
// @verif property=C11,C06,C01 tier=quick timeout=600 mem=12 bounds="[Events] concrete line 5: first sprite fills an empty background (path cleaned)"
oracle_proof!(c11_ev_line_05, 48, {
    events_background_case("", "Sprite,Background,Centre,\"sb\\\\a.png\",320,240", true, "sb/a.png");
    kani::cover!(true, "reached");
});
// @verif property=C11,C06,C01 tier=quick timeout=600 mem=12 bounds="[Events] concrete line 6: sprite does not replace an existing background"
oracle_proof!(c11_ev_line_06, 48, {
    events_background_case("old.png", "4,Background,Centre,\"sb/a.png\",320,240", true, "old.png");
    kani::cover!(true, "reached");
});
// @verif property=C11,C06,C01 tier=quick timeout=600 mem=12 bounds="[Events] concrete line 7: sprite line without file name is rejected"
oracle_proof!(c11_ev_line_07, 48, {
    events_background_case("", "Sprite,Background,Centre", false, "");
    kani::cover!(true, "reached");
});
// @verif property=C11,C06,C01 tier=quick timeout=600 mem=12 bounds="[Events] concrete line 8: sample event changes nothing"
oracle_proof!(c11_ev_line_08, 48, {
    events_background_case("old.png", "Sample,0,0,\"a.wav\",100", true, "old.png");
    kani::cover!(true, "reached");
});
// @verif property=C11,C06,C01 tier=quick timeout=600 mem=12 bounds="[Events] concrete line 9: unknown event type is rejected"
oracle_proof!(c11_ev_line_09, 48, {
    events_background_case("old.png", "9,0,x", false, "old.png");
    kani::cover!(true, "reached");
});
// @verif property=C11,C06,C01 tier=quick timeout=600 mem=12 bounds="[Events] concrete line 10: line with two fields is rejected"
oracle_proof!(c11_ev_line_10, 48, {
    events_background_case("old.png", "0,0", false, "old.png");
    kani::cover!(true, "reached");
});
// @verif property=C11,C06,C01 tier=quick timeout=600 mem=12 bounds="[Events] concrete line 11: colour event changes nothing"
oracle_proof!(c11_ev_line_11, 48, {
    events_background_case("old.png", "3,100,163,162,255", true, "old.png");
    kani::cover!(true, "reached");
});
// @verif property=C11,C06,C01 tier=quick timeout=600 mem=12 bounds="[Events] concrete line 12: video name without dot: judged by its last three bytes"
oracle_proof!(c11_ev_line_12, 48, {
    events_background_case("old.png", "Video,0,\"cover\"", true, "cover");
    kani::cover!(true, "reached");
});
// @verif property=C11,C06,C01 tier=quick timeout=600 mem=12 bounds="[Events] concrete line 13: long extension ending in a video suffix counts as video"
oracle_proof!(c11_ev_line_13, 48, {
    events_background_case("old.png", "1,0,\"intro.xMP4\"", true, "old.png");
    kani::cover!(true, "reached");
});
// @verif property=C11,C06,C01 tier=quick timeout=600 mem=12 bounds="[Events] concrete line 14: non-ASCII video name (multi-byte character under the third-from-last byte)"
oracle_proof!(c11_ev_line_14, 48, {
    events_background_case("old.png", "Video,0,\"na\u{ef}ve\"", true, "na\u{ef}ve");
    kani::cover!(true, "reached");
});
// @verif property=C11,C06,C01 tier=quick timeout=600 mem=12 bounds="[Events] concrete line 15: video name shorter than three bytes changes nothing"
oracle_proof!(c11_ev_line_15, 48, {
    events_background_case("old.png", "Video,0,\"a.\"", true, "old.png");
    kani::cover!(true, "reached");
});


/// Colours: R,G,B with optional ignored alpha; wrong field counts and bad numbers are rejected.
fn colors_line(template: &'static str, fields: usize, named: bool) {
    let mut st = Colors::default();
    st.custom_combo_colors = Vec::with_capacity(4);
    st.custom_combo_colors.push(Color::new(1, 2, 3, 255));
    st.custom_colors = Vec::with_capacity(4);
    st.custom_colors.push(CustomColor { name: String::from("SliderBorder"), color: Color::new(9, 9, 9, 255) });
    let r = stubs::seed_u8(b'a');
    let g = stubs::seed_u8(b'b');
    let b = if fields >= 3 { stubs::seed_u8(b'c') } else { None };
    let _alpha = if fields >= 4 { stubs::seed_u8(b'd') } else { None };
    let res = Colors::parse_colors(&mut st, tok_line(template));
    let accepted = (fields == 3 || fields == 4) && r.is_some() && g.is_some() && b.is_some();
    assert!(res.is_ok() == accepted, "acceptance differs from the format rule");
    if accepted {
        let want = [r.unwrap(), g.unwrap(), b.unwrap(), 255];
        if named {
            // a named colour overrides the existing entry of that name
            assert!(st.custom_colors.len() == 1 && st.custom_colors[0].color.0 == want);
            assert!(st.custom_combo_colors.len() == 1);
        } else {
            assert!(st.custom_combo_colors.len() == 2 && st.custom_combo_colors[1].0 == want);
            assert!(st.custom_colors.len() == 1 && st.custom_colors[0].color.0 == [9, 9, 9, 255]);
        }
        kani::cover!(true, "colour accepted");
    } else {
        assert!(st.custom_combo_colors.len() == 1 && st.custom_colors.len() == 1);
        assert!(st.custom_colors[0].color.0 == [9, 9, 9, 255]);
        kani::cover!(true, "colour rejected, state untouched");
    }
    assert!(st.custom_combo_colors[0].0 == [1, 2, 3, 255]);
    core::mem::forget(st);
}

// @verif property=C11,C06,C01 tier=quick timeout=900 mem=16 bounds="[Colours] 'Combo2 : $a,$b,$c' after one combo colour and one named colour; every u8 / parse error per field"
oracle_proof!(c11_col_combo3, 24, colors_line("Combo2 : $a,$b,$c", 3, false));
// @verif property=C11,C06,C01 tier=quick timeout=900 mem=16 bounds="[Colours] 'Combo1: $a,$b,$c,$d' (alpha ignored)" covers=2
oracle_proof!(c11_col_combo4, 24, colors_line("Combo1: $a,$b,$c,$d", 4, false));
// @verif property=C11,C06,C01 tier=quick timeout=900 mem=16 bounds="[Colours] 'Combo1: $a,$b' (two fields: rejected)" covers=1
oracle_proof!(c11_col_combo2, 24, colors_line("Combo1: $a,$b", 2, false));
// @verif property=C11,C06,C01 tier=quick timeout=900 mem=16 bounds="[Colours] 'SliderBorder: $a,$b,$c' overriding the entry of the same name"
oracle_proof!(c11_col_named, 24, colors_line("SliderBorder: $a,$b,$c", 3, true));

/// A named colour whose name differs from an existing one only in case is a NEW entry.
fn colors_named_other_case() {
    let mut st = Colors::default();
    st.custom_colors = Vec::with_capacity(4);
    st.custom_colors.push(CustomColor { name: String::from("SliderBorder"), color: Color::new(9, 9, 9, 255) });
    let (r, g, b) = (stubs::seed_u8(b'a'), stubs::seed_u8(b'b'), stubs::seed_u8(b'c'));
    let res = Colors::parse_colors(&mut st, tok_line("sliderborder: $a,$b,$c"));
    let accepted = r.is_some() && g.is_some() && b.is_some();
    assert!(res.is_ok() == accepted);
    assert!(st.custom_colors[0].color.0 == [9, 9, 9, 255], "a differently-cased name overwrote an existing colour");
    if accepted {
        assert!(st.custom_colors.len() == 2);
        assert!(st.custom_colors[1].name.as_bytes() == b"sliderborder");
        assert!(st.custom_colors[1].color.0 == [r.unwrap(), g.unwrap(), b.unwrap(), 255]);
        kani::cover!(true, "second entry added");
    } else {
        assert!(st.custom_colors.len() == 1);
    }
    core::mem::forget(st);
}

// @verif property=C11,C03,C06,C01 tier=quick timeout=900 mem=16 bounds="[Colours] 'sliderborder: $a,$b,$c' next to an existing 'SliderBorder' (names are case-sensitive: a new entry)"
oracle_proof!(c11_col_named_other_case, 24, colors_named_other_case());

/// AudioFilename: the trimmed text after the first colon with Windows separators standardised;
/// every other field untouched (concrete lines, arbitrary numeric state).
fn general_audio_filename(line: &'static str, want: &'static str) {
    let (mut st, pre) = any_general();
    let res = General::parse_general(&mut st, line);
    assert!(res.is_ok());
    assert!(st.audio_file.as_bytes() == want.as_bytes(), "audio file name differs from the format rule");
    assert!(general_matches(&st, &pre), "a file-name record changed another field");
    kani::cover!(true, "reached");
    core::mem::forget(st);
}

// @verif property=C11,C03,C01 tier=quick timeout=600 mem=12 bounds="[General] concrete 'AudioFilename: audio\\sub\\a.mp3' from an arbitrary numeric state (separators standardised)"
oracle_proof!(c11_gen_audio_backslash, 48, general_audio_filename("AudioFilename: audio\\sub\\a.mp3", "audio/sub/a.mp3"));
// @verif property=C11,C03,C01 tier=quick timeout=600 mem=12 bounds="[General] concrete 'AudioFilename:a:b.mp3 // c' (colon inside the value kept, comment cut)"
oracle_proof!(c11_gen_audio_colon_comment, 48, general_audio_filename("AudioFilename:a:b.mp3 // c", "a:b.mp3"));
