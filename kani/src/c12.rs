//! C12 -- timing-point lines resolve by the legacy precedence rules.
//!
//! Real code: `TimingPoints::parse_timing_points` (+ add_control_point / flush / the four
//! `ControlPoint::add` impls) and `TimingPoints::from(state)`. Times are concrete tokens from
//! {-5, 0, 10, 20}; every other numeric field is an oracle value (all values of its type or a
//! parse error); mode, default bank and default volume are symbolic. Oracle: the legacy model in
//! refmodel::timing, evaluated on the same values; the four resulting lists must be equal.

use rosu_map::section::general::GameMode;
use rosu_map::section::hit_objects::hit_samples::SampleBank;
use rosu_map::section::timing_points::{TimingPoints, TimingPointsState};
use rosu_map::verif_hooks::timing_points as hooks;
use rosu_map::{DecodeBeatmap, DecodeState};

use crate::c11::oracle_proof;
use crate::refmodel::control_points::{strictly_increasing, KDifficulty, KEffect, KSample, KTiming};
use crate::refmodel::timing::*;
use crate::stubs::{self, tok_line};

/// Quick tier: beat lengths at reduced width (see `seed_line`). The `full_width` cfg-free switch
/// is a const so that the thorough harnesses can share the code.
#[cfg(not(verif_full_width))]
const REDUCED_WIDTH: bool = true;
#[cfg(verif_full_width)]
const REDUCED_WIDTH: bool = false;

pub const BEAT_LEN_ALPHABET: [f64; 18] = [
    500.0, 6.0, 5.0, 60000.0, 70000.0, 0.0, -0.0, -100.0, -50.0, -200.0, -1000.0, -2000.0, -5.0,
    -1e-300, f64::NAN, 3e9, -3e9, f64::INFINITY,
];

#[derive(Copy, Clone)]
pub enum Shape {
    /// `T,$b,$c,$d,$e,$f,1,$g`
    FullTiming,
    /// `T,$b,$c,$d,$e,$f,0,$g`
    FullInherited,
    /// `T,$b`
    Short,
    /// `T,$b,0,$d` (time signature text starts with '0': 4/4 kept)
    ZeroSig,
}

/// Seed the oracle for one line (tokens starting at letter `base`) and describe it.
fn seed_line(time: f64, shape: Shape, base: u8) -> LineVals {
    let beat_len = stubs::seed_f64(base);
    if REDUCED_WIDTH {
        // Quick tier: the beat length comes from an alphabet (the property's own quantifier names
        // "beat lengths incl. negative/zero/huge/NaN"). The slider-velocity division
        // 100 / -beat_len is computed by the code AND by the reference; proving two full-width
        // f64 dividers equal does not finish (> 900 s), over an alphabet it is immediate.
        if let Some(b) = beat_len {
            let idx: u8 = kani::any();
            kani::assume(b.to_bits() == BEAT_LEN_ALPHABET[(idx % 18) as usize].to_bits());
        }
    }
    let full = matches!(shape, Shape::FullTiming | Shape::FullInherited);
    LineVals {
        time,
        beat_len,
        present: match shape {
            Shape::Short => 2,
            Shape::ZeroSig => 4,
            _ => 8,
        },
        sig: if full { stubs::seed_i32(base + 1) } else { None },
        sig_is_zero_text: matches!(shape, Shape::ZeroSig),
        sample_set: if full || matches!(shape, Shape::ZeroSig) { stubs::seed_i32(base + 2) } else { None },
        custom_bank: if full { stubs::seed_i32(base + 3) } else { None },
        volume: if full { stubs::seed_i32(base + 4) } else { None },
        timing_change: !matches!(shape, Shape::FullInherited),
        flags: if full { stubs::seed_i32(base + 5) } else { None },
    }
}

fn any_mode() -> GameMode {
    match kani::any::<u8>() & 3 {
        0 => GameMode::Osu,
        1 => GameMode::Taiko,
        2 => GameMode::Catch,
        _ => GameMode::Mania,
    }
}

fn any_bank() -> SampleBank {
    match kani::any::<u8>() & 3 {
        0 => SampleBank::None,
        1 => SampleBank::Normal,
        2 => SampleBank::Soft,
        _ => SampleBank::Drum,
    }
}

pub struct Ctx {
    pub state: TimingPointsState,
    pub reference: RefTiming,
    pub mode: GameMode,
    pub bank: SampleBank,
    pub volume: i32,
    pub accepted: usize,
    pub rejected: usize,
}

pub fn new_ctx() -> Ctx {
    let mut state = TimingPointsState::create(14);
    let mode = any_mode();
    let bank = any_bank();
    let volume: i32 = kani::any();
    {
        let g = hooks::state_general_mut(&mut state);
        g.mode = mode;
        g.default_sample_bank = bank;
        g.default_sample_volume = volume;
    }
    Ctx { state, reference: RefTiming::new(), mode, bank, volume, accepted: 0, rejected: 0 }
}

/// Run one line through the real parser and the reference model.
/// What of the parser state is observable through the hook (pending group + list lengths).
fn observe(state: &TimingPointsState) -> (u64, bool, bool, bool, bool, usize, usize, usize, usize) {
    let p = hooks::state_parts(state);
    (
        p.pending_control_points_time.to_bits(),
        p.pending_timing_point.is_some(),
        p.pending_difficulty_point.is_some(),
        p.pending_effect_point.is_some(),
        p.pending_sample_point.is_some(),
        p.control_points.timing_points.len(),
        p.control_points.difficulty_points.len(),
        p.control_points.effect_points.len(),
        p.control_points.sample_points.len(),
    )
}

pub fn feed(ctx: &mut Ctx, vals: LineVals, template: &'static str) {
    let before = observe(&ctx.state);
    let res = TimingPoints::parse_timing_points(&mut ctx.state, tok_line(template));
    if res.is_err() {
        // C06: a rejected line neither flushes nor touches the pending group
        assert!(observe(&ctx.state) == before, "a rejected timing line changed the parser state");
    }
    match line_points(&vals, ctx.mode, ctx.bank, ctx.volume) {
        Some(pts) => {
            assert!(res.is_ok(), "a line the legacy rules accept was rejected");
            ctx.reference.line(pts);
            ctx.accepted += 1;
        }
        None => {
            assert!(res.is_err(), "a line the legacy rules reject was accepted");
            ctx.rejected += 1;
        }
    }
}

pub fn finish(ctx: Ctx) {
    let Ctx { state, mut reference, accepted, rejected, .. } = ctx;
    let out = TimingPoints::from(state);
    reference.flush();
    let cp = &out.control_points;
    assert!(list_matches::<KTiming>(&cp.timing_points, &reference.timing), "timing points differ from the legacy model");
    assert!(list_matches::<KDifficulty>(&cp.difficulty_points, &reference.difficulty), "difficulty points differ from the legacy model");
    assert!(list_matches::<KEffect>(&cp.effect_points, &reference.effect), "effect points differ from the legacy model");
    assert!(list_matches::<KSample>(&cp.sample_points, &reference.sample), "sample points differ from the legacy model");
    // generic invariants, independent of the reference model
    let mut t = [0.0f64; 4];
    let mut i = 0;
    while i < cp.timing_points.len() {
        let p = &cp.timing_points[i];
        t[i] = p.time;
        assert!(p.beat_len >= 6.0 && p.beat_len <= 60000.0);
        i += 1;
    }
    assert!(strictly_increasing(&t[..cp.timing_points.len()]));
    let mut i = 0;
    while i < cp.difficulty_points.len() {
        let p = &cp.difficulty_points[i];
        t[i] = p.time;
        assert!(p.slider_velocity >= 0.1 && p.slider_velocity <= 10.0);
        i += 1;
    }
    assert!(strictly_increasing(&t[..cp.difficulty_points.len()]));
    let mut i = 0;
    while i < cp.effect_points.len() {
        let p = &cp.effect_points[i];
        t[i] = p.time;
        assert!(p.scroll_speed >= 0.01 && p.scroll_speed <= 10.0);
        i += 1;
    }
    assert!(strictly_increasing(&t[..cp.effect_points.len()]));
    let mut i = 0;
    while i < cp.sample_points.len() {
        let p = &cp.sample_points[i];
        t[i] = p.time;
        assert!(p.sample_volume >= 0 && p.sample_volume <= 100);
        i += 1;
    }
    assert!(strictly_increasing(&t[..cp.sample_points.len()]));
    kani::cover!(accepted > 0 && cp.timing_points.len() > 0, "a timing point was stored");
    kani::cover!(accepted > 0 && cp.difficulty_points.is_empty(), "a redundant difficulty point was dropped");
    kani::cover!(rejected > 0, "a line was rejected");
    core::mem::forget(out);
}

fn one_line(time: f64, shape: Shape, template: &'static str) {
    let mut ctx = new_ctx();
    let vals = seed_line(time, shape, b'b');
    feed(&mut ctx, vals, template);
    finish(ctx);
}

fn two_lines(t1: f64, s1: Shape, l1: &'static str, t2: f64, s2: Shape, l2: &'static str) {
    let mut ctx = new_ctx();
    let v1 = seed_line(t1, s1, b'b');
    let v2 = seed_line(t2, s2, b'h');
    feed(&mut ctx, v1, l1);
    feed(&mut ctx, v2, l2);
    kani::cover!(ctx.accepted == 2, "both lines accepted");
    finish(ctx);
}

// ---- one line ----
// @verif property=C12 tier=quick timeout=900 mem=16 bounds="1 line '0,$b,$c,$d,$e,$f,1,$g': time 0, timing change; beat length every f64 / error; signature, bank, custom bank, volume, flags every i32 / error; mode, default bank, default volume symbolic"
oracle_proof!(c12_one_timing_t0, 32, one_line(0.0, Shape::FullTiming, "0,$b,$c,$d,$e,$f,1,$g"));
// @verif property=C12 tier=quick timeout=900 mem=16 bounds="1 line '10,$b,$c,$d,$e,$f,0,$g': time 10, inherited (NaN beat length allowed -> ticks off)" covers=2
oracle_proof!(c12_one_inherited_t10, 32, one_line(10.0, Shape::FullInherited, "10,$b,$c,$d,$e,$f,0,$g"));
// @verif property=C12,C06,C01 tier=quick timeout=900 mem=16 bounds="1 line '-5,$b' (only two fields: every default applies)"
oracle_proof!(c12_one_short_tm5, 32, one_line(-5.0, Shape::Short, "-5,$b"));
// @verif property=C12 tier=quick timeout=900 mem=16 bounds="1 line '20,$b,0,$d' (time signature text '0' keeps 4/4; four fields)"
oracle_proof!(c12_one_zerosig_t20, 32, one_line(20.0, Shape::ZeroSig, "20,$b,0,$d"));

/// A valid line, then a line at ANOTHER time that is always rejected (unparsable beat length):
/// the pending group of the first line must stay pending.
fn reject_after_valid() {
    let mut ctx = new_ctx();
    let v1 = seed_line(10.0, Shape::Short, b'b');
    feed(&mut ctx, v1, "10,$b");
    let before = observe(&ctx.state);
    let res = TimingPoints::parse_timing_points(&mut ctx.state, "20,x,4,1,0,100,1,0");
    assert!(res.is_err());
    assert!(observe(&ctx.state) == before, "a rejected timing line changed the parser state");
    kani::cover!(before.1, "a timing point was pending when the bad line arrived");
    finish(ctx);
}

// @verif property=C12,C06,C01 tier=quick timeout=1500 mem=28 bounds="valid line '10,$b', then the always-rejected line '20,x,...' at another time: pending group and lists untouched" covers=4
oracle_proof!(c12_reject_after_valid, 32, reject_after_valid());

/// The same with CONCRETE lines only (cheap guard: the run is almost entirely constant-folded).
fn reject_after_valid_concrete() {
    let mut ctx = new_ctx();
    let r1 = TimingPoints::parse_timing_points(&mut ctx.state, "10,500,4,2,0,50,1,0");
    assert!(r1.is_ok());
    let before = observe(&ctx.state);
    assert!(before.1 && before.2 && before.3 && before.4, "the first line's points must be pending");
    let r2 = TimingPoints::parse_timing_points(&mut ctx.state, "20,x,4,1,0,100,1,0");
    assert!(r2.is_err());
    assert!(observe(&ctx.state) == before, "a rejected timing line changed the parser state");
    let r3 = TimingPoints::parse_timing_points(&mut ctx.state, "20,250,4,1,0,100,0");
    assert!(r3.is_err() || r3.is_ok());
    kani::cover!(true, "reached");
    core::mem::forget(ctx.state);
}

// @verif property=C12,C06,C01 tier=quick timeout=900 mem=16 bounds="CONCRETE lines '10,500,4,2,0,50,1,0' then the rejected '20,x,...': pending group and lists untouched (mode / defaults symbolic)"
oracle_proof!(c12_reject_after_valid_concrete, 32, reject_after_valid_concrete());

// ---- two lines, same time (one group) ----
// (two lines of DIFFERENT kind at one time -- timing change + inherited in one group -- run out of
// memory at 20 GB and at 40 GB (20-40 min each); they are not registered. push_front / push_back
// are exercised by the same-kind pairs, and C13 decides the `add` step.)
// @verif property=C12 tier=quick timeout=1500 mem=20 bounds="2 lines at time 0: timing change then timing change (first wins)"
oracle_proof!(c12_two_same_tt, 32, two_lines(0.0, Shape::FullTiming, "0,$b,$c,$d,$e,$f,1,$g", 0.0, Shape::Short, "0,$h"));
// @verif property=C12 tier=quick timeout=1500 mem=20 bounds="2 lines at time 0: inherited then inherited (last wins)" covers=3
oracle_proof!(c12_two_same_ii, 32, two_lines(0.0, Shape::FullInherited, "0,$b,$c,$d,$e,$f,0,$g", 0.0, Shape::FullInherited, "0,$h,$i,$j,$k,$l,0,$m"));

// ---- two lines, different times / different kinds: first line CONCRETE, second symbolic ----
// (two fully symbolic lines at different times, or of different kinds at one time, run out of
// memory at 28-40 GB; with a concrete first line a same-time pair of different kinds costs 140-200 s.
// A second line at ANOTHER time -- which makes the first group flush into the lists before the
// second is parsed -- still runs out of memory / time (825 s OOM at 24 GB, 1500 s time-out) even
// with a concrete first line and is not registered: flushing is `ControlPoints::add`, decided by
// C13's inductive step, and the final flush of every harness here.)

/// The values of the concrete line `T,500,4,2,0,50,K,0` (K = 1 timing change, 0 inherited).
fn concrete_line_vals(time: f64, timing_change: bool) -> LineVals {
    LineVals {
        time,
        beat_len: Some(500.0),
        present: 8,
        sig: Some(4),
        sig_is_zero_text: false,
        sample_set: Some(2),
        custom_bank: Some(0),
        volume: Some(50),
        timing_change,
        flags: Some(0),
    }
}

fn concrete_then_symbolic(t1: f64, tc1: bool, l1: &'static str, t2: f64, s2: Shape, l2: &'static str) {
    let mut ctx = new_ctx();
    feed(&mut ctx, concrete_line_vals(t1, tc1), l1);
    let v2 = seed_line(t2, s2, b'h');
    feed(&mut ctx, v2, l2);
    kani::cover!(ctx.accepted == 2, "both lines accepted");
    finish(ctx);
}

// @verif property=C12 tier=quick timeout=1500 mem=16 bounds="concrete timing line at 10, then a symbolic INHERITED full line at 10 (one group, different kinds: inherited points win, timing point stays)"
oracle_proof!(c12_conc_t10_then_i10, 32, concrete_then_symbolic(10.0, true, "10,500,4,2,0,50,1,0", 10.0, Shape::FullInherited, "10,$h,$i,$j,$k,$l,0,$m"));
// @verif property=C12 tier=quick timeout=1500 mem=16 bounds="concrete inherited line at 10, then a symbolic TIMING full line at 10 (one group: the timing line must not override the inherited points)"
oracle_proof!(c12_conc_i10_then_t10, 32, concrete_then_symbolic(10.0, false, "10,500,4,2,0,50,0,0", 10.0, Shape::FullTiming, "10,$h,$i,$j,$k,$l,1,$m"));

// Vacuity twin.
// @verif property=C12 tier=thorough expect=fail timeout=900 mem=16 bounds="vacuity twin of c12_one_timing_t0"
#[kani::proof]
#[kani::unwind(32)]
#[kani::stub(core::slice::memchr::memchr, stubs::memchr_model)]
#[kani::stub(core::slice::memchr::memrchr, stubs::memrchr_model)]
#[kani::stub(<f64 as core::str::FromStr>::from_str, stubs::f64_from_str)]
#[kani::stub(<f32 as core::str::FromStr>::from_str, stubs::f32_from_str)]
#[kani::stub(<i32 as core::str::FromStr>::from_str, stubs::i32_from_str)]
#[kani::stub(<u8 as core::str::FromStr>::from_str, stubs::u8_from_str)]
fn c12_vacuity_twin() {
    one_line(0.0, Shape::FullTiming, "0,$b,$c,$d,$e,$f,1,$g");
    assert!(false, "vacuity twin: end of harness is reachable");
}
