//! C13 -- control-point collections stay ordered; lookups return the active point.
//!
//! One inductive step: an arbitrary sorted pre-state of N points, one `ControlPoints::add` with an
//! arbitrary point, full functional post-condition against `refmodel::control_points`, then a
//! lookup at an arbitrary probe time.

use rosu_map::section::hit_objects::hit_samples::SampleBank;
use rosu_map::section::timing_points::{
    ControlPoints, DifficultyPoint, EffectPoint, SamplePoint, TimeSignature, TimingPoint,
};

use crate::refmodel::control_points::*;
use crate::util::{any_time, any_time_no_negzero};

trait Ops: Kind {
    fn any_at(time: f64) -> Self::P;
    fn list(cps: &ControlPoints) -> &Vec<Self::P>;
    fn set_list(cps: &mut ControlPoints, v: Vec<Self::P>);
    fn add(cps: &mut ControlPoints, p: Self::P);
    fn lookup(cps: &ControlPoints, t: f64) -> Option<&Self::P>;
}

fn any_bank() -> SampleBank {
    match kani::any::<u8>() & 3 {
        0 => SampleBank::None,
        1 => SampleBank::Normal,
        2 => SampleBank::Soft,
        _ => SampleBank::Drum,
    }
}

impl Ops for KTiming {
    fn any_at(time: f64) -> TimingPoint {
        let num: i32 = kani::any();
        kani::assume(num > 0);
        TimingPoint {
            time,
            beat_len: kani::any(),
            omit_first_bar_line: kani::any(),
            time_signature: TimeSignature::new(num).unwrap(),
        }
    }
    fn list(cps: &ControlPoints) -> &Vec<TimingPoint> {
        &cps.timing_points
    }
    fn set_list(cps: &mut ControlPoints, v: Vec<TimingPoint>) {
        cps.timing_points = v;
    }
    fn add(cps: &mut ControlPoints, p: TimingPoint) {
        cps.add(p);
    }
    fn lookup(cps: &ControlPoints, t: f64) -> Option<&TimingPoint> {
        cps.timing_point_at(t)
    }
}

impl Ops for KDifficulty {
    fn any_at(time: f64) -> DifficultyPoint {
        DifficultyPoint {
            time,
            slider_velocity: kani::any(),
            generate_ticks: kani::any(),
        }
    }
    fn list(cps: &ControlPoints) -> &Vec<DifficultyPoint> {
        &cps.difficulty_points
    }
    fn set_list(cps: &mut ControlPoints, v: Vec<DifficultyPoint>) {
        cps.difficulty_points = v;
    }
    fn add(cps: &mut ControlPoints, p: DifficultyPoint) {
        cps.add(p);
    }
    fn lookup(cps: &ControlPoints, t: f64) -> Option<&DifficultyPoint> {
        cps.difficulty_point_at(t)
    }
}

impl Ops for KEffect {
    fn any_at(time: f64) -> EffectPoint {
        EffectPoint {
            time,
            kiai: kani::any(),
            scroll_speed: kani::any(),
        }
    }
    fn list(cps: &ControlPoints) -> &Vec<EffectPoint> {
        &cps.effect_points
    }
    fn set_list(cps: &mut ControlPoints, v: Vec<EffectPoint>) {
        cps.effect_points = v;
    }
    fn add(cps: &mut ControlPoints, p: EffectPoint) {
        cps.add(p);
    }
    fn lookup(cps: &ControlPoints, t: f64) -> Option<&EffectPoint> {
        cps.effect_point_at(t)
    }
}

impl Ops for KSample {
    fn any_at(time: f64) -> SamplePoint {
        SamplePoint {
            time,
            sample_bank: any_bank(),
            sample_volume: kani::any(),
            custom_sample_bank: kani::any(),
        }
    }
    fn list(cps: &ControlPoints) -> &Vec<SamplePoint> {
        &cps.sample_points
    }
    fn set_list(cps: &mut ControlPoints, v: Vec<SamplePoint>) {
        cps.sample_points = v;
    }
    fn add(cps: &mut ControlPoints, p: SamplePoint) {
        cps.add(p);
    }
    fn lookup(cps: &ControlPoints, t: f64) -> Option<&SamplePoint> {
        cps.sample_point_at(t)
    }
}

/// The inductive step. `negzero`: also allow -0.0 as a time (known finding D8 lives there).
fn step<K: Ops, const N: usize>(negzero: bool) {
    let mut saw_negzero = false;
    let mut time = || {
        if negzero {
            let t = any_time();
            saw_negzero |= t == 0.0 && t.is_sign_negative();
            t
        } else {
            any_time_no_negzero()
        }
    };

    // arbitrary valid pre-state: strictly increasing times, arbitrary values
    let mut pre: Vec<K::P> = Vec::with_capacity(N);
    let mut times = [0.0f64; N];
    let mut i = 0;
    while i < N {
        let t = time();
        if i > 0 {
            kani::assume(times[i - 1] < t);
        }
        times[i] = t;
        pre.push(K::any_at(t));
        i += 1;
    }

    let mut cps = ControlPoints::default();
    let mut list = Vec::with_capacity(N + 1);
    let mut i = 0;
    while i < N {
        list.push(pre[i].clone());
        i += 1;
    }
    K::set_list(&mut cps, list);

    let p = K::any_at(time());
    let probe = time();
    if negzero {
        // role of known finding D8: some time involved is -0.0
        kani::assume(saw_negzero);
    }
    let outcome = expected_add::<K>(&pre, &times, &p);

    K::add(&mut cps, p.clone());

    let post = K::list(&cps);

    // (ii) grows by at most one, never shrinks
    assert!(post.len() == N || post.len() == N + 1);

    // (i) strictly increasing afterwards, at most one point per time
    let mut post_times = [0.0f64; 8];
    let mut i = 0;
    while i < post.len() {
        post_times[i] = K::time(&post[i]);
        i += 1;
    }
    let post_times = &post_times[..post.len()];
    assert!(strictly_increasing(post_times));

    // (iii) full functional post-condition: dropped / replaced / inserted exactly as the legacy
    // rules say, every other point untouched
    assert!(post_matches::<K>(&pre, post, &p, outcome));

    // reachability witnesses (only those that are satisfiable for this kind and size)
    let droppable = !K::repeats_never() && (N >= 1 || K::LOOKUP_FALLS_BACK_TO_FIRST == false);
    if droppable {
        kani::cover!(outcome == AddOutcome::Dropped, "a redundant point was dropped");
    }
    if N >= 1 {
        kani::cover!(matches!(outcome, AddOutcome::Replaced(_)), "a point was replaced");
    }
    kani::cover!(matches!(outcome, AddOutcome::Inserted(_)), "a point was inserted");

    // (iv) lookup at an arbitrary probe time on the post-state
    let want = expected_lookup::<K>(post_times, probe);
    let got = K::lookup(&cps, probe);
    match (want, got) {
        (None, None) => {}
        (Some(i), Some(g)) => {
            assert!(core::ptr::eq(g, &post[i]));
        }
        _ => panic!("lookup presence differs from the reference"),
    }
    if !K::LOOKUP_FALLS_BACK_TO_FIRST {
        kani::cover!(want.is_none(), "lookup found nothing");
    }
    kani::cover!(want.is_some(), "lookup found a point");

    core::mem::forget(cps);
    core::mem::forget(pre);
}

macro_rules! c13_step {
    ($name:ident, $kind:ty, $n:expr, $unwind:expr) => {
        #[kani::proof]
        #[kani::unwind($unwind)]
        fn $name() {
            step::<$kind, $n>(false);
        }
    };
}

// @verif property=C13 tier=quick expect=pass timeout=600 covers=2
// @verif bounds="pre-state: 0 stored timing points; 1 add; 1 lookup; all f64 times except NaN and -0.0; all values"
c13_step!(c13_timing_n0, KTiming, 0, 4);
// @verif property=C13 tier=quick expect=pass timeout=600 covers=3
// @verif bounds="pre-state: 1 stored timing point (arbitrary time/value); 1 add; 1 lookup"
c13_step!(c13_timing_n1, KTiming, 1, 5);
// @verif property=C13 tier=quick expect=pass timeout=600 covers=3
// @verif bounds="pre-state: 2 stored timing points; 1 add; 1 lookup"
c13_step!(c13_timing_n2, KTiming, 2, 6);
// @verif property=C13 tier=thorough expect=pass timeout=1800 covers=3
// @verif bounds="pre-state: 3 stored timing points; 1 add; 1 lookup"
c13_step!(c13_timing_n3, KTiming, 3, 7);

// @verif property=C13 tier=quick expect=pass timeout=600 covers=4
// @verif bounds="pre-state: 0 stored difficulty points; 1 add; 1 lookup"
c13_step!(c13_difficulty_n0, KDifficulty, 0, 4);
// @verif property=C13 tier=quick expect=pass timeout=600 covers=5
// @verif bounds="pre-state: 1 stored difficulty point; 1 add; 1 lookup"
c13_step!(c13_difficulty_n1, KDifficulty, 1, 5);
// @verif property=C13 tier=quick expect=pass timeout=600 covers=5
// @verif bounds="pre-state: 2 stored difficulty points; 1 add; 1 lookup"
c13_step!(c13_difficulty_n2, KDifficulty, 2, 6);
// @verif property=C13 tier=thorough expect=pass timeout=1800 covers=5
// @verif bounds="pre-state: 3 stored difficulty points; 1 add; 1 lookup"
c13_step!(c13_difficulty_n3, KDifficulty, 3, 7);

// @verif property=C13 tier=quick expect=pass timeout=600 covers=4
// @verif bounds="pre-state: 0 stored effect points; 1 add; 1 lookup"
c13_step!(c13_effect_n0, KEffect, 0, 4);
// @verif property=C13 tier=quick expect=pass timeout=600 covers=5
// @verif bounds="pre-state: 1 stored effect point; 1 add; 1 lookup"
c13_step!(c13_effect_n1, KEffect, 1, 5);
// @verif property=C13 tier=quick expect=pass timeout=600 covers=5
// @verif bounds="pre-state: 2 stored effect points; 1 add; 1 lookup"
c13_step!(c13_effect_n2, KEffect, 2, 6);
// @verif property=C13 tier=thorough expect=pass timeout=1800 covers=5
// @verif bounds="pre-state: 3 stored effect points; 1 add; 1 lookup"
c13_step!(c13_effect_n3, KEffect, 3, 7);

// @verif property=C13 tier=quick expect=pass timeout=600 covers=2
// @verif bounds="pre-state: 0 stored sample points; 1 add; 1 lookup"
c13_step!(c13_sample_n0, KSample, 0, 4);
// @verif property=C13 tier=quick expect=pass timeout=600 covers=4
// @verif bounds="pre-state: 1 stored sample point; 1 add; 1 lookup"
c13_step!(c13_sample_n1, KSample, 1, 5);
// @verif property=C13 tier=quick expect=pass timeout=600 covers=4
// @verif bounds="pre-state: 2 stored sample points; 1 add; 1 lookup"
c13_step!(c13_sample_n2, KSample, 2, 6);
// @verif property=C13 tier=thorough expect=pass timeout=1800 covers=4
// @verif bounds="pre-state: 3 stored sample points; 1 add; 1 lookup"
c13_step!(c13_sample_n3, KSample, 3, 7);

// @verif property=C13 tier=thorough expect=pass timeout=3000 covers=3
// @verif bounds="pre-state: 4 stored timing points; 1 add; 1 lookup"
c13_step!(c13_timing_n4, KTiming, 4, 8);
// @verif property=C13 tier=thorough expect=pass timeout=3000 covers=5
// @verif bounds="pre-state: 4 stored difficulty points; 1 add; 1 lookup"
c13_step!(c13_difficulty_n4, KDifficulty, 4, 8);
// @verif property=C13 tier=thorough expect=pass timeout=3000 covers=5
// @verif bounds="pre-state: 4 stored effect points; 1 add; 1 lookup"
c13_step!(c13_effect_n4, KEffect, 4, 8);
// @verif property=C13 tier=thorough expect=pass timeout=3000 covers=4
// @verif bounds="pre-state: 4 stored sample points; 1 add; 1 lookup"
c13_step!(c13_sample_n4, KSample, 4, 8);

// Known finding D8: with -0.0 allowed as a time, `total_cmp` orders -0.0 before +0.0 and both get
// stored. Expected to FAIL while D8 is open; the driver prints KNOWN-FINDING for it.
// @verif property=C13 tier=quick expect=known-finding finding=D8 timeout=600
// @verif bounds="pre-state: 1 stored difficulty point; times may be -0.0"
#[kani::proof]
#[kani::unwind(5)]
fn c13_d8_negzero_witness() {
    step::<KDifficulty, 1>(true);
}

// Vacuity twin: same step, final assert(false) must be reported as reachable.
// @verif property=C13 tier=thorough expect=fail timeout=600
// @verif bounds="vacuity twin of c13_difficulty_n2"
#[kani::proof]
#[kani::unwind(6)]
fn c13_vacuity_twin() {
    step::<KDifficulty, 2>(false);
    assert!(false, "vacuity twin: end of harness is reachable");
}
