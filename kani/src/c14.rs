//! C14 -- hit-object lines decode per the legacy grammar.
//!
//! Real code: `HitObjects::parse_hit_objects` (circle / spinner / hold lines, every numeric field
//! an oracle value), `convert_path_str` through the forwarding hook for single-segment path
//! strings. Oracle: an independent reference written from the statement.

use rosu_map::section::hit_objects::hit_samples::{
    HitSampleDefaultName, HitSampleInfo, HitSampleInfoName, SampleBank,
};
use rosu_map::section::hit_objects::{HitObjectKind, HitObjectType, HitObjects, HitObjectsState};
use rosu_map::{DecodeBeatmap, DecodeState};

use crate::c11::oracle_proof;
use crate::refmodel::numbers::*;
use crate::stubs::{self, tok_line};

const CIRCLE: i32 = 1;
const SLIDER: i32 = 2;
const NEW_COMBO: i32 = 4;
const SPINNER: i32 = 8;
const COMBO_OFFSET: i32 = 0x70;
const HOLD: i32 = 128;

fn bank_from(v: i32) -> SampleBank {
    match v {
        0 => SampleBank::None,
        1 => SampleBank::Normal,
        2 => SampleBank::Soft,
        3 => SampleBank::Drum,
        _ => SampleBank::Normal,
    }
}

fn bank_code(b: SampleBank) -> u8 {
    match b {
        SampleBank::None => 0,
        SampleBank::Normal => 1,
        SampleBank::Soft => 2,
        SampleBank::Drum => 3,
    }
}

#[derive(Copy, Clone)]
struct RefSample {
    name: u8, // 0 normal, 1 whistle, 2 finish, 3 clap
    bank: u8,
    bank_specified: bool,
    suffix: Option<u32>,
    volume: i32,
    custom: i32,
    layered: bool,
}

/// The documented sample list for (sound flags, banks, custom index, volume), no file name.
fn ref_samples(sound: u8, normal: Option<SampleBank>, addition: Option<SampleBank>, custom: i32, volume: i32) -> ([Option<RefSample>; 4], usize) {
    let mk = |name: u8, bank: Option<SampleBank>, layered: bool| RefSample {
        name,
        bank: bank_code(bank.unwrap_or(SampleBank::Normal)),
        bank_specified: bank.is_some(),
        suffix: if custom >= 2 { Some(custom as u32) } else { None },
        volume,
        custom,
        layered,
    };
    let mut out = [None; 4];
    let mut n = 0;
    out[n] = Some(mk(0, normal, sound != 0 && sound & 1 == 0));
    n += 1;
    if sound & 4 != 0 {
        out[n] = Some(mk(2, addition, false));
        n += 1;
    }
    if sound & 2 != 0 {
        out[n] = Some(mk(1, addition, false));
        n += 1;
    }
    if sound & 8 != 0 {
        out[n] = Some(mk(3, addition, false));
        n += 1;
    }
    (out, n)
}

fn sample_matches(s: &HitSampleInfo, r: &RefSample) -> bool {
    let name = match s.name {
        HitSampleInfoName::Default(HitSampleDefaultName::Normal) => 0,
        HitSampleInfoName::Default(HitSampleDefaultName::Whistle) => 1,
        HitSampleInfoName::Default(HitSampleDefaultName::Finish) => 2,
        HitSampleInfoName::Default(HitSampleDefaultName::Clap) => 3,
        HitSampleInfoName::File(_) => 9,
    };
    name == r.name
        && bank_code(s.bank) == r.bank
        && s.bank_specified == r.bank_specified
        && s.suffix.map(|x| x.get()) == r.suffix
        && s.volume == r.volume
        && s.custom_sample_bank == r.custom
        && s.is_layered == r.layered
}

fn samples_match(got: &[HitSampleInfo], want: &([Option<RefSample>; 4], usize)) -> bool {
    if got.len() != want.1 {
        return false;
    }
    let mut i = 0;
    while i < got.len() {
        if !sample_matches(&got[i], want.0[i].as_ref().unwrap()) {
            return false;
        }
        i += 1;
    }
    true
}

/// An arbitrary predecessor: `last_object` is public, its value comes from parsing an oracle token.
fn any_last_object() -> (Option<HitObjectType>, Option<i32>) {
    if kani::any() {
        let v = stubs::seed_i32(b'z');
        kani::assume(v.is_some());
        let t: HitObjectType = tok_line("$z").parse().unwrap();
        (Some(t), v)
    } else {
        (None, None)
    }
}

struct Common {
    x: Option<f32>,
    y: Option<f32>,
    time: Option<f64>,
    ty: Option<i32>,
    sound: Option<i32>,
}

fn seed_common(concrete_sound: Option<i32>) -> Common {
    Common {
        x: accept_f32_limit(stubs::seed_f32(b'a'), 131072.0),
        y: accept_f32_limit(stubs::seed_f32(b'b'), 131072.0),
        time: accept_f64(stubs::seed_f64(b'c')),
        ty: stubs::seed_i32(b'd'),
        // a concrete hit-sound number in the template keeps the sample list's length concrete
        sound: if concrete_sound.is_some() { concrete_sound } else { stubs::seed_i32(b'e') },
    }
}

fn trunc(v: f32) -> f32 {
    v as i32 as f32
}

/// Circle lines: `x,y,time,type,sound[,bank:addbank:custom:volume:]`.
fn circle_line(with_extras: bool, concrete_sound: Option<i32>, template: &'static str) {
    let mut st = HitObjectsState::create(14);
    let (last, last_v) = any_last_object();
    st.last_object = last;
    let c = seed_common(concrete_sound);
    // this harness: lines whose type carries the circle flag
    if let Some(t) = c.ty {
        kani::assume(t & CIRCLE != 0);
    }
    let (eb, ea, ec, ev) = if with_extras {
        (accept_i32(stubs::seed_i32(b'f')), accept_i32(stubs::seed_i32(b'g')), accept_i32(stubs::seed_i32(b'h')), accept_i32(stubs::seed_i32(b'i')))
    } else {
        (None, None, None, None)
    };
    let res = HitObjects::parse_hit_objects(&mut st, tok_line(template));

    let ok = c.x.is_some() && c.y.is_some() && c.time.is_some() && c.ty.is_some() && c.sound.is_some()
        && (!with_extras || (eb.is_some() && ea.is_some() && ec.is_some() && ev.is_some()));
    assert!(res.is_ok() == ok, "acceptance differs from the legacy grammar");
    if !ok {
        // C06: a rejected line leaves no trace
        assert!(st.hit_objects.is_empty());
        assert!(st.last_object.map(i32::from) == last.map(i32::from));
        assert!(st.curve_points.is_empty() && st.vertices.is_empty());
        kani::cover!(c.x.is_none(), "coordinate beyond +-131072 (or unparsable) rejects the line");
        core::mem::forget(st);
        return;
    }
    let ty = c.ty.unwrap();
    let new_combo_flag = ty & NEW_COMBO != 0;
    let offset = (ty & COMBO_OFFSET) >> 4;
    let first = last.is_none();
    let after_spinner = last_v.map_or(false, |v| v & SPINNER != 0);
    assert!(st.hit_objects.len() == 1);
    let h = &st.hit_objects[0];
    assert!(h.start_time.to_bits() == c.time.unwrap().to_bits());
    match &h.kind {
        HitObjectKind::Circle(circle) => {
            assert!(circle.pos.x == trunc(c.x.unwrap()) && circle.pos.y == trunc(c.y.unwrap()));
            assert!(circle.new_combo == (first || after_spinner || new_combo_flag));
            // a combo offset counts only together with the new-combo flag
            assert!(circle.combo_offset == if new_combo_flag { offset } else { 0 });
        }
        _ => panic!("the circle flag has precedence over slider, spinner and hold"),
    }
    // the remembered type has the combo bits stripped
    assert!(st.last_object.map(i32::from) == Some(ty & !COMBO_OFFSET & !NEW_COMBO));
    // samples
    let sound = (c.sound.unwrap() & 0xFF) as u8;
    let (normal, addition, custom, volume) = if with_extras {
        let b = bank_from(eb.unwrap());
        let a = bank_from(ea.unwrap());
        let nb = if bank_code(b) != 0 { Some(b) } else { None };
        let ab = if bank_code(a) != 0 { Some(a) } else { None };
        (nb, if ab.is_some() { ab } else { nb }, ec.unwrap(), if ev.unwrap() < 0 { 0 } else { ev.unwrap() })
    } else {
        (None, None, 0, 0)
    };
    assert!(samples_match(&h.samples, &ref_samples(sound, normal, addition, custom, volume)), "sample list differs from the documented mapping");
    kani::cover!(first, "first object starts a combo");
    kani::cover!(!first && after_spinner && !new_combo_flag, "object after a spinner starts a combo");
    kani::cover!(!new_combo_flag && offset != 0, "combo offset without new-combo is ignored");
    kani::cover!(ty & SLIDER != 0, "circle flag beats slider flag");
    if concrete_sound.is_none() {
        kani::cover!(h.samples.len() == 4, "all addition sounds");
    }
    core::mem::forget(st);
}

// @verif property=C14,C06,C01 tier=quick timeout=1500 mem=20 bounds="circle line '$a,$b,$c,$d,6' (hit sound 6 = whistle+finish): x,y every f32 / error, time every f64 / error, type every i32 with the circle flag / error; arbitrary predecessor (none or any i32 type)" covers=5
oracle_proof!(c14_circle_sound6, 32, circle_line(false, Some(6), "$a,$b,$c,$d,6"));
// @verif property=C14,C01 tier=quick timeout=1500 mem=20 bounds="circle line '$a,$b,$c,$d,16' (hit sound 16: no addition flags, normal flag absent -> the implicit normal sample is layered)" covers=5
oracle_proof!(c14_circle_sound16, 32, circle_line(false, Some(16), "$a,$b,$c,$d,16"));
// @verif property=C14 tier=thorough timeout=3000 mem=24 bounds="circle line '$a,$b,$c,$d,$e': as above with the hit sound every i32 / error" covers=6
oracle_proof!(c14_circle_plain, 32, circle_line(false, None, "$a,$b,$c,$d,$e"));
// @verif property=C14 tier=thorough timeout=3400 mem=28 bounds="circle line with extras '$a,$b,$c,$d,$e,$f:$g:$h:$i:' (banks, custom index, volume every i32 / error)" covers=6
oracle_proof!(c14_circle_extras, 40, circle_line(true, None, "$a,$b,$c,$d,$e,$f:$g:$h:$i:"));

/// Six-field line `x,y,time,type,0,$f` with a fully symbolic type: the kind follows the flag
/// precedence circle > slider > spinner > hold; spinner / hold durations are never negative.
fn kinds_line() {
    let mut st = HitObjectsState::create(14);
    let (last, _last_v) = any_last_object();
    st.last_object = last;
    let c = seed_common(Some(0));
    let f64v = accept_f64(stubs::seed_f64(b'f'));
    let _f_as_int = stubs::seed_i32(b'f'); // the circle branch reads the sixth field as a bank number
    let res = HitObjects::parse_hit_objects(&mut st, tok_line("$a,$b,$c,$d,0,$f"));
    let common_ok = c.x.is_some() && c.y.is_some() && c.time.is_some() && c.ty.is_some();
    if !common_ok {
        assert!(res.is_err() && st.hit_objects.is_empty());
        core::mem::forget(st);
        return;
    }
    let ty = c.ty.unwrap();
    let start = c.time.unwrap();
    if ty & CIRCLE != 0 {
        // "$f" alone is an incomplete sample-bank field
        assert!(res.is_err() && st.hit_objects.is_empty());
        kani::cover!(ty & SPINNER != 0, "circle flag beats spinner flag: the line is read as a circle");
    } else if ty & SLIDER != 0 {
        // a slider needs a path and a repeat count
        assert!(res.is_err() && st.hit_objects.is_empty());
        kani::cover!(ty & HOLD != 0, "slider flag beats hold flag");
    } else if ty & SPINNER != 0 {
        assert!(res.is_ok() == f64v.is_some());
        if let Some(end) = f64v {
            assert!(st.hit_objects.len() == 1);
            match &st.hit_objects[0].kind {
                HitObjectKind::Spinner(s) => {
                    let d = end - start;
                    assert!(s.duration == if d > 0.0 { d } else { 0.0 });
                    assert!(s.duration >= 0.0);
                    assert!(s.new_combo == (ty & NEW_COMBO != 0));
                    assert!(s.pos.x == 256.0 && s.pos.y == 192.0);
                }
                _ => panic!("spinner flag without circle/slider flag must give a spinner"),
            }
            kani::cover!(end < start, "spinner ending before it starts has duration 0");
            kani::cover!(ty & HOLD != 0, "spinner flag beats hold flag");
        }
    } else if ty & HOLD != 0 {
        assert!(res.is_ok() == f64v.is_some());
        if let Some(end) = f64v {
            assert!(st.hit_objects.len() == 1);
            match &st.hit_objects[0].kind {
                HitObjectKind::Hold(h) => {
                    let e = if end > start { end } else { start };
                    assert!(h.duration == e - start);
                    assert!(h.duration >= 0.0);
                    assert!(h.pos_x == trunc(c.x.unwrap()));
                }
                _ => panic!("hold flag alone must give a hold note"),
            }
            kani::cover!(end < start, "hold ending before it starts has duration 0");
        }
    } else {
        assert!(res.is_err() && st.hit_objects.is_empty(), "a type without any kind flag must be rejected");
        kani::cover!(true, "unknown kind rejected");
    }
    if res.is_ok() {
        assert!(st.last_object.map(i32::from) == Some(ty & !COMBO_OFFSET & !NEW_COMBO));
        assert!(st.hit_objects[0].start_time.to_bits() == start.to_bits());
        assert!(samples_match(&st.hit_objects[0].samples, &ref_samples(0, None, None, 0, 0)));
    } else {
        assert!(st.last_object.map(i32::from) == last.map(i32::from));
    }
    core::mem::forget(st);
}

// @verif property=C14,C01 tier=quick timeout=1800 mem=24 bounds="line '$a,$b,$c,$d,0,$f' with the type EVERY i32 (kind precedence circle>slider>spinner>hold, unknown kinds), end time every f64 / error; arbitrary predecessor"
oracle_proof!(c14_kinds, 32, kinds_line());
// @verif property=C14 tier=thorough timeout=1800 mem=24 bounds="circle line with extras '$a,$b,$c,$d,10,$f:$g:$h:$i:' (hit sound 10 = whistle+clap; banks, custom index, volume every i32 / error)" covers=5
oracle_proof!(c14_circle_extras_sound10, 40, circle_line(true, Some(10), "$a,$b,$c,$d,10,$f:$g:$h:$i:"));

// ------------------------------------------------------------------------------------------
// slider path strings (single typed segment) through the `convert_path_str` hook
// ------------------------------------------------------------------------------------------

use rosu_map::section::hit_objects::{PathControlPoint, PathType, SplineType};
use rosu_map::util::Pos;
use rosu_map::verif_hooks::hit_objects as ho_hooks;

fn coord(v: Option<f64>) -> Option<f32> {
    // path coordinates: f64 within +-131072, truncated to an integer
    accept_f64_limit(v, 131072.0).map(|v| v as i32 as f32)
}

fn kind_code(p: &PathControlPoint) -> u8 {
    match p.path_type {
        None => 0,
        Some(t) => match t.kind {
            SplineType::Catmull => 1,
            SplineType::BSpline => 2,
            SplineType::Linear => 3,
            SplineType::PerfectCurve => 4,
        },
    }
}

/// One typed segment with two explicit points: `<letter>|$a:$b|$c:$d` relative to `offset`.
/// letter code: 1 Catmull, 2 Bezier, 3 Linear, 4 Perfect.
fn path_two_points(letter_code: u8, template: &'static str) {
    let mut st = HitObjectsState::create(14);
    // what an earlier slider may have left in the scratch vertices buffer
    st.vertices.push(PathControlPoint::new(Pos::new(7.0, 7.0)));
    let ox = kani::any::<i16>() as f32;
    let oy = kani::any::<i16>() as f32;
    let offset = Pos::new(ox, oy);
    let (a, b, c, d) = (coord(stubs::seed_f64(b'a')), coord(stubs::seed_f64(b'b')), coord(stubs::seed_f64(b'c')), coord(stubs::seed_f64(b'd')));
    let res = ho_hooks::convert_path_str(&mut st, tok_line(template), offset);
    let ok = a.is_some() && b.is_some() && c.is_some() && d.is_some();
    assert!(res.is_ok() == ok, "acceptance differs from the legacy grammar");
    assert!(ho_hooks::point_split_len(&st) == 0, "the token scratch buffer must be emptied");
    if !ok {
        // C06: nothing of a rejected path may be committed
        assert!(st.curve_points.is_empty(), "a rejected path left control points behind");
        kani::cover!(a.is_some() && b.is_some(), "failure after the first point was read");
        core::mem::forget(st);
        return;
    }
    let p1 = Pos::new(a.unwrap() - ox, b.unwrap() - oy);
    let p2 = Pos::new(c.unwrap() - ox, d.unwrap() - oy);
    let origin = Pos::new(0.0, 0.0);
    // this harness: no repeated consecutive points (segment splitting is decided separately)
    kani::assume(!(p1.x == origin.x && p1.y == origin.y) && !(p2.x == p1.x && p2.y == p1.y));
    let cross = (p1.y - origin.y) * (p2.x - origin.x) - (p1.x - origin.x) * (p2.y - origin.y);
    let collinear = (if cross < 0.0 { -cross } else { cross }) < f32::EPSILON;
    let want_kind = if letter_code == 4 && collinear { 3 } else { letter_code };
    let cp = &st.curve_points;
    assert!(cp.len() == 3, "control-point count differs from the legacy rule");
    // the first point sits at the origin and carries the type
    assert!(cp[0].pos.x == 0.0 && cp[0].pos.y == 0.0 && kind_code(&cp[0]) == want_kind);
    assert!(cp[1].pos.x == p1.x && cp[1].pos.y == p1.y && kind_code(&cp[1]) == 0);
    assert!(cp[2].pos.x == p2.x && cp[2].pos.y == p2.y && kind_code(&cp[2]) == 0);
    if letter_code == 4 {
        kani::cover!(collinear, "degenerate perfect curve downgraded to linear");
        kani::cover!(!collinear, "proper perfect curve kept");
    } else {
        kani::cover!(true, "path converted");
    }
    core::mem::forget(st);
}

// @verif property=C14 tier=quick timeout=1500 mem=20 bounds="convert_path_str on 'P|$a:$b|$c:$d' (coordinates every f64 / error), offset any integer pair in [-32768,32767]; no repeated consecutive points" covers=3
oracle_proof!(c14_path_p2, 24, path_two_points(4, "P|$a:$b|$c:$d"));
// @verif property=C14,C06,C01 tier=quick timeout=1500 mem=20 bounds="convert_path_str on 'B|$a:$b|$c:$d'" covers=2
oracle_proof!(c14_path_b2, 24, path_two_points(2, "B|$a:$b|$c:$d"));
// @verif property=C14 tier=thorough timeout=1500 mem=20 bounds="convert_path_str on 'L|$a:$b|$c:$d'" covers=2
oracle_proof!(c14_path_l2, 24, path_two_points(3, "L|$a:$b|$c:$d"));
// @verif property=C14 tier=thorough timeout=1500 mem=20 bounds="convert_path_str on 'C|$a:$b|$c:$d'" covers=2
oracle_proof!(c14_path_c2, 24, path_two_points(1, "C|$a:$b|$c:$d"));

// ------------------------------------------------------------------------------------------
// full slider line with a CONCRETE path string and repeat count (symbolic path coordinates or
// repeat counts make the control-point / node vectors' lengths symbolic: out of memory)
// ------------------------------------------------------------------------------------------

/// `x,y,time,2,0,B|100:100|200:200,2,$g`: slider flag, hit sound 0, two repeats, pixel length $g.
fn slider_line_concrete_path() {
    let mut st = HitObjectsState::create(14);
    let (last, last_v) = any_last_object();
    st.last_object = last;
    let x = accept_f32_limit(stubs::seed_f32(b'a'), 131072.0);
    let y = accept_f32_limit(stubs::seed_f32(b'b'), 131072.0);
    let time = accept_f64(stubs::seed_f64(b'c'));
    let len = accept_f64_limit(stubs::seed_f64(b'g'), 131072.0);
    let res = HitObjects::parse_hit_objects(&mut st, tok_line("$a,$b,$c,2,0,B|100:100|200:200,2,$g"));
    let ok = x.is_some() && y.is_some() && time.is_some() && len.is_some();
    assert!(res.is_ok() == ok, "acceptance differs from the legacy grammar");
    if !ok {
        assert!(st.hit_objects.is_empty() && st.curve_points.is_empty());
        assert!(st.last_object.map(i32::from) == last.map(i32::from));
        kani::cover!(x.is_some() && y.is_some() && time.is_some(), "rejected at the very last field");
        core::mem::forget(st);
        return;
    }
    let (px, py) = (trunc(x.unwrap()), trunc(y.unwrap()));
    // this harness: the path's points do not coincide with the slider head or each other
    kani::assume(!(px == 100.0 && py == 100.0));
    assert!(st.hit_objects.len() == 1 && st.curve_points.is_empty());
    let h = &st.hit_objects[0];
    assert!(h.start_time.to_bits() == time.unwrap().to_bits());
    match &h.kind {
        HitObjectKind::Slider(s) => {
            assert!(s.pos.x == px && s.pos.y == py);
            let first = last.is_none();
            let after_spinner = last_v.map_or(false, |v| v & SPINNER != 0);
            assert!(s.new_combo == (first || after_spinner) && s.combo_offset == 0);
            // "2" repeats in the file = one repeat after the first span; nodes = repeats + 2
            assert!(s.repeat_count == 1 && s.node_samples.len() == 3);
            assert!(s.velocity == 1.0);
            // an absent, zero or negative length means natural length
            let l = len.unwrap();
            let want = if l > 0.0 && l >= f64::EPSILON { Some(l) } else { None };
            assert!(s.path.expected_dist().map(f64::to_bits) == want.map(f64::to_bits), "requested length differs from the legacy rule");
            let cp = s.path.control_points();
            assert!(cp.len() == 3);
            assert!(cp[0].pos.x == 0.0 && cp[0].pos.y == 0.0 && kind_code(&cp[0]) == 2);
            assert!(cp[1].pos.x == 100.0 - px && cp[1].pos.y == 100.0 - py && kind_code(&cp[1]) == 0);
            assert!(cp[2].pos.x == 200.0 - px && cp[2].pos.y == 200.0 - py && kind_code(&cp[2]) == 0);
            kani::cover!(want.is_none(), "non-positive length: natural length");
            kani::cover!(want.is_some(), "requested length kept");
        }
        _ => panic!("slider flag without circle flag must give a slider"),
    }
    assert!(st.last_object.map(i32::from) == Some(SLIDER));
    core::mem::forget(st);
}

// @verif property=C14 tier=thorough timeout=3400 mem=32 bounds="slider line '$a,$b,$c,2,0,B|100:100|200:200,2,$g': CONCRETE path and repeat count; x,y every f32 / error, time, length every f64 / error; arbitrary predecessor"
oracle_proof!(c14_slider_concrete_path, 48, slider_line_concrete_path());

/// A multi-segment path whose SECOND segment fails after the first was converted: nothing of
/// the rejected path may stay behind (C06: "corruption deep inside a multi-segment slider path").
fn path_second_segment_fails() {
    let mut st = HitObjectsState::create(14);
    let ox = kani::any::<i16>() as f32;
    let oy = kani::any::<i16>() as f32;
    let res = ho_hooks::convert_path_str(&mut st, "B|10:10|20:20|L|30:30|x:40", Pos::new(ox, oy));
    assert!(res.is_err(), "a path with an unparsable coordinate must be rejected");
    assert!(ho_hooks::point_split_len(&st) == 0);
    assert!(st.curve_points.is_empty(), "a rejected path left control points behind");
    kani::cover!(true, "rejected");
    core::mem::forget(st);
}

// @verif property=EXP tier=quick timeout=1800 mem=24 bounds="convert_path_str on the CONCRETE two-segment string 'B|10:10|20:20|L|30:30|x:40' (bad coordinate in the second segment), symbolic offset"
oracle_proof!(c14_path_second_segment_fails, 48, path_second_segment_fails());

/// Slider nodes inherit the slider's own sample banks when the edge-set field is empty:
/// `x,y,1000,2,2,L|200:100,2,100,2|2|2,,2:3:0:0:` (concrete apart from the position).
fn slider_node_banks() {
    let mut st = HitObjectsState::create(14);
    let x = accept_f32_limit(stubs::seed_f32(b'a'), 131072.0);
    let y = accept_f32_limit(stubs::seed_f32(b'b'), 131072.0);
    let res = HitObjects::parse_hit_objects(&mut st, tok_line("$a,$b,1000,2,2,L|200:100,2,100,2|2|2,,2:3:0:0:"));
    assert!(res.is_ok() == (x.is_some() && y.is_some()));
    if res.is_ok() {
        match &st.hit_objects[0].kind {
            HitObjectKind::Slider(s) => {
                assert!(s.node_samples.len() == 3, "a slider has repeats + 2 node sample sets");
                let mut i = 0;
                while i < 3 {
                    let node = &s.node_samples[i];
                    // node hit sound 2 = normal (layered) + whistle; banks from the slider's extras
                    assert!(node.len() == 2);
                    assert!(bank_code(node[0].bank) == 2 && node[0].bank_specified, "node normal bank not inherited from the slider");
                    assert!(bank_code(node[1].bank) == 3 && node[1].bank_specified, "node addition bank not inherited from the slider");
                    assert!(node[0].is_layered && !node[1].is_layered);
                    i += 1;
                }
                kani::cover!(true, "slider decoded");
            }
            _ => panic!("must be a slider"),
        }
        assert!(samples_match(&st.hit_objects[0].samples, &ref_samples(2, Some(SampleBank::Soft), Some(SampleBank::Drum), 0, 0)));
    }
    core::mem::forget(st);
}

// @verif property=C14 tier=thorough timeout=3000 mem=32 bounds="slider line '$a,$b,1000,2,2,L|200:100,2,100,2|2|2,,2:3:0:0:' (concrete apart from the position): node sample sets inherit the slider's banks"
oracle_proof!(c14_slider_node_banks, 48, slider_node_banks());

/// One typed segment with THREE explicit points and no restriction on repeated points:
/// `<letter>|$a:$b|$c:$d|$e:$f`. A repeated point splits the segment (the point before the
/// repetition gets the type, the repetition itself is dropped) -- except in Catmull paths after
/// the first point, and except at the segment's last position.
fn path_three_points(letter_code: u8, template: &'static str) {
    let mut st = HitObjectsState::create(14);
    let offset = Pos::new(kani::any::<i8>() as f32, kani::any::<i8>() as f32);
    let c = [
        coord(stubs::seed_f64(b'a')), coord(stubs::seed_f64(b'b')), coord(stubs::seed_f64(b'c')),
        coord(stubs::seed_f64(b'd')), coord(stubs::seed_f64(b'e')), coord(stubs::seed_f64(b'f')),
    ];
    let res = ho_hooks::convert_path_str(&mut st, tok_line(template), offset);
    let ok = c[0].is_some() && c[1].is_some() && c[2].is_some() && c[3].is_some() && c[4].is_some() && c[5].is_some();
    assert!(res.is_ok() == ok);
    if !ok {
        assert!(st.curve_points.is_empty(), "a rejected path left control points behind");
        core::mem::forget(st);
        return;
    }
    let v = [
        Pos::new(0.0, 0.0),
        Pos::new(c[0].unwrap() - offset.x, c[1].unwrap() - offset.y),
        Pos::new(c[2].unwrap() - offset.x, c[3].unwrap() - offset.y),
        Pos::new(c[4].unwrap() - offset.x, c[5].unwrap() - offset.y),
    ];
    let same = |i: usize, j: usize| v[i].x == v[j].x && v[i].y == v[j].y;
    let (e1, e2, e3) = (same(1, 0), same(2, 1), same(3, 2));
    let catmull = letter_code == 1;
    // a perfect curve with four vertices is a Bezier
    let kind = if letter_code == 4 { 2 } else { letter_code };
    // expected list as (vertex index, carries the type)
    let mut want: [(usize, bool); 4] = [(0, true), (1, false), (2, false), (3, false)];
    let mut n = 4;
    let split_at_2 = e2 && !catmull; // repetition in the middle (never at the last position)
    if e1 && split_at_2 {
        want = [(0, true), (3, false), (0, false), (0, false)];
        n = 2;
    } else if e1 {
        want = [(0, true), (2, false), (3, false), (0, false)];
        n = 3;
    } else if split_at_2 {
        want = [(0, true), (1, true), (3, false), (0, false)];
        n = 3;
    }
    let _ = e3; // a repetition at the segment's last position never splits
    let cp = &st.curve_points;
    assert!(cp.len() == n, "control-point count differs from the legacy splitting rule");
    let mut i = 0;
    while i < n {
        let (idx, typed) = want[i];
        assert!(cp[i].pos.x == v[idx].x && cp[i].pos.y == v[idx].y, "control-point position differs from the legacy splitting rule");
        assert!(kind_code(&cp[i]) == if typed { kind } else { 0 }, "control-point type differs from the legacy splitting rule");
        i += 1;
    }
    kani::cover!(e1 && !e2, "first point repeats the origin");
    if !catmull {
        kani::cover!(e2 && !e1, "repetition in the middle splits the segment");
    } else {
        kani::cover!(e2 && !e1, "repetition in a Catmull path does not split");
    }
    kani::cover!(e3 && !e2 && !e1, "repetition at the last position does not split");
    core::mem::forget(st);
}

// @verif property=C14,C06,C01 tier=quick timeout=1800 mem=20 covers=3 bounds="convert_path_str on 'B|$a:$b|$c:$d|$e:$f' (all coordinates every f64 / error; every pattern of repeated points), offset on the integer grid"
oracle_proof!(c14_path_b3_repeats, 32, path_three_points(2, "B|$a:$b|$c:$d|$e:$f"));
// @verif property=C14 tier=quick timeout=1800 mem=20 covers=3 bounds="convert_path_str on 'C|$a:$b|$c:$d|$e:$f' (Catmull: repetitions after the first point do not split)"
oracle_proof!(c14_path_c3_repeats, 32, path_three_points(1, "C|$a:$b|$c:$d|$e:$f"));
