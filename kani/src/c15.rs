//! C15 -- map-level processing of hit objects (kernels): breaks -> new combo, sample-point
//! defaults, slider velocity formula.

use std::num::NonZeroU32;

use rosu_map::section::events::{BreakPeriod, Events};
use rosu_map::section::general::GameMode;
use rosu_map::section::hit_objects::hit_samples::{
    HitSampleDefaultName, HitSampleInfo, HitSampleInfoName, SampleBank,
};
use rosu_map::section::hit_objects::{HitObject, HitObjectCircle, HitObjectHold, HitObjectKind, HitObjectSpinner};
use rosu_map::section::timing_points::SamplePoint;
use rosu_map::util::Pos;
use rosu_map::verif_hooks::hit_objects as hooks;

fn any_bank() -> SampleBank {
    match kani::any::<u8>() & 3 {
        0 => SampleBank::None,
        1 => SampleBank::Normal,
        2 => SampleBank::Soft,
        _ => SampleBank::Drum,
    }
}

fn bank_code(b: SampleBank) -> u8 {
    match b {
        SampleBank::None => 0,
        SampleBank::Normal => 1,
        SampleBank::Soft => 2,
        SampleBank::Drum => 3,
    }
}

/// The first object whose start lies after a break's end starts a new combo (hold notes have
/// no combo); every other object keeps its flag.
fn breaks_to_new_combo<const N: usize, const B: usize>() {
    let mut objs: Vec<HitObject> = Vec::with_capacity(N);
    let mut times = [0.0f64; N];
    let mut flags = [false; N];
    let mut kinds = [0u8; N];
    let mut i = 0;
    while i < N {
        let t: f64 = kani::any();
        kani::assume(!t.is_nan());
        if i > 0 {
            kani::assume(t >= times[i - 1]); // objects are sorted by start time at this point
        }
        times[i] = t;
        flags[i] = kani::any();
        kinds[i] = kani::any::<u8>() % 3;
        let kind = match kinds[i] {
            0 => HitObjectKind::Circle(HitObjectCircle { pos: Pos::new(0.0, 0.0), new_combo: flags[i], combo_offset: 0 }),
            1 => HitObjectKind::Spinner(HitObjectSpinner { pos: Pos::new(0.0, 0.0), duration: 0.0, new_combo: flags[i] }),
            _ => HitObjectKind::Hold(HitObjectHold { pos_x: 0.0, duration: 0.0 }),
        };
        objs.push(HitObject { start_time: t, kind, samples: Vec::new() });
        i += 1;
    }
    let mut events = Events::default();
    events.breaks = Vec::with_capacity(B);
    let mut ends = [0.0f64; B];
    let mut i = 0;
    while i < B {
        let s: f64 = kani::any();
        let e: f64 = kani::any();
        kani::assume(!s.is_nan() && !e.is_nan() && e >= s);
        if i > 0 {
            kani::assume(e >= ends[i - 1]); // breaks in chronological order
        }
        ends[i] = e;
        events.breaks.push(BreakPeriod { start_time: s, end_time: e });
        i += 1;
    }
    hooks::post_process_breaks(&mut objs, &events);
    // reference: object i is forced iff some break ended before it and after the previous object
    let mut i = 0;
    while i < N {
        let mut forced = false;
        let mut b = 0;
        while b < B {
            let after_prev = i == 0 || !(ends[b] < times[i - 1]);
            if ends[b] < times[i] && after_prev {
                forced = true;
            }
            b += 1;
        }
        let got = objs[i].new_combo();
        let want = if kinds[i] == 2 { false } else { flags[i] || forced };
        assert!(got == want, "new-combo flag after breaks differs from the rule");
        if i > 0 {
            kani::cover!(forced && !flags[i], "object after a break is forced to start a combo");
        }
        i += 1;
    }
    core::mem::forget(objs);
    core::mem::forget(events);
}

/// Sample-point defaults: volume / bank / custom index are taken from the sample point only when
/// the sample does not specify them; file samples are reset.
fn sample_point_apply() {
    let custom: i32 = kani::any();
    let volume: i32 = kani::any();
    let suffix_raw: u32 = kani::any();
    let is_file: bool = kani::any();
    let name = if is_file {
        HitSampleInfoName::File(String::new())
    } else {
        HitSampleInfoName::Default(match kani::any::<u8>() & 3 {
            0 => HitSampleDefaultName::Normal,
            1 => HitSampleDefaultName::Whistle,
            2 => HitSampleDefaultName::Finish,
            _ => HitSampleDefaultName::Clap,
        })
    };
    let bank = any_bank();
    let bank_specified: bool = kani::any();
    let layered: bool = kani::any();
    let suffix = NonZeroU32::new(suffix_raw);
    let mut s = HitSampleInfo { name, bank, suffix, volume, custom_sample_bank: custom, bank_specified, is_layered: layered };
    let p = SamplePoint { time: kani::any(), sample_bank: any_bank(), sample_volume: kani::any(), custom_sample_bank: kani::any() };
    p.apply(&mut s);
    let pv = if p.sample_volume < 0 { 0 } else if p.sample_volume > 100 { 100 } else { p.sample_volume };
    assert!(s.volume == if volume == 0 { pv } else { volume });
    if is_file {
        assert!(bank_code(s.bank) == 1 && s.suffix.is_none() && s.custom_sample_bank == 1 && !s.bank_specified && !s.is_layered);
    } else {
        let want_custom = if custom == 0 { p.custom_sample_bank } else { custom };
        assert!(s.custom_sample_bank == want_custom);
        if custom == 0 && want_custom >= 2 {
            assert!(s.suffix.map(|x| x.get()) == Some(want_custom as u32));
        } else {
            assert!(s.suffix == suffix);
        }
        assert!(bank_code(s.bank) == if bank_specified { bank_code(bank) } else { bank_code(p.sample_bank) });
        assert!(s.bank_specified);
        assert!(s.is_layered == layered);
    }
    kani::cover!(!is_file && custom == 0 && p.custom_sample_bank >= 2, "custom index taken from the sample point");
    kani::cover!(is_file, "file sample reset");
    core::mem::forget(s);
}

/// Slider velocity: precision-adjusted beat length over an alphabet of slider velocities and
/// beat lengths, every mode (clamp [10, 10000] resp. [10, 1000] of the percentage).
fn precision_adjusted_beat_len() {
    const SV: [f64; 8] = [0.1, 0.05, 0.5, 1.0, 2.0, 10.0, 20.0, -1.0];
    const BL: [f64; 4] = [6.0, 500.0, 1000.0, 60000.0];
    let sv = SV[(kani::any::<u8>() % 8) as usize];
    let bl = BL[(kani::any::<u8>() % 4) as usize];
    let mode = match kani::any::<u8>() & 3 {
        0 => GameMode::Osu,
        1 => GameMode::Taiko,
        2 => GameMode::Catch,
        _ => GameMode::Mania,
    };
    let got = hooks::get_precision_adjusted_beat_len(sv, bl, mode);
    // beat length x (100 / sv) %, the percentage clamped per mode; a non-positive velocity counts as 1
    let pct = 100.0 / sv;
    let hi = if matches!(mode, GameMode::Osu | GameMode::Catch) { 10000.0 } else { 1000.0 };
    let mult = if pct > 0.0 { (if pct < 10.0 { 10.0 } else if pct > hi { hi } else { pct }) / 100.0 } else { 1.0 };
    assert!(got == bl * mult, "precision-adjusted beat length differs from the formula");
    kani::cover!(sv == 0.05 && matches!(mode, GameMode::Taiko), "percentage clamped at 1000 in taiko");
    kani::cover!(sv == 20.0, "percentage clamped at 10");
}

macro_rules! c15 {
    ($name:ident, $unwind:expr, $body:expr) => {
        #[kani::proof]
        #[kani::unwind($unwind)]
        fn $name() {
            $body;
        }
    };
}

// @verif property=C15 tier=quick timeout=900 mem=16 bounds="post_process_breaks on 2 objects (circle / spinner / hold, any flags, any sorted f64 times) and 1 break (any times)"
c15!(c15_breaks_n2_b1, 6, breaks_to_new_combo::<2, 1>());
// @verif property=C15 tier=quick timeout=1200 mem=16 bounds="post_process_breaks on 3 objects and 2 chronological breaks"
c15!(c15_breaks_n3_b2, 8, breaks_to_new_combo::<3, 2>());
// @verif property=C15,C01 tier=quick timeout=600 bounds="SamplePoint::apply on an arbitrary HitSampleInfo (every i32 volume / custom index, every suffix, all names) x arbitrary SamplePoint (incl. the NonZeroU32::new_unchecked guard)"
c15!(c15_sample_point_apply, 4, sample_point_apply());
// @verif property=C15 tier=quick timeout=600 bounds="get_precision_adjusted_beat_len over 8 slider velocities x 4 beat lengths x 4 modes (alphabet: symbolic full-width division does not finish)"
c15!(c15_precision_adjusted_beat_len, 4, precision_adjusted_beat_len());

// (`HitObjects::from(state)` end to end was tried on small CONCRETE object lists with symbolic
// break / sample-point times -- 3 circles out of order + 1 break; 1 slider + 2 sample points: no
// result in 30 min resp. out of memory at 24 GB (`sort_by` and the per-object loop). The
// post-processing as a whole stays outside C15; its kernels are decided above.)
