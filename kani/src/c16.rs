//! C16 -- a slider's curve honours the requested pixel length.
//!
//! `calculate_length` does not care how the polyline was produced, so it is run (through the
//! forwarding hook) on an ARBITRARY polyline of n vertices with an arbitrary requested length.

use rosu_map::util::Pos;
use rosu_map::verif_hooks::curve as hooks;

use crate::c19::any_pos;

fn same_pos(a: Pos, b: Pos) -> bool {
    a.x.to_bits() == b.x.to_bits() && a.y.to_bits() == b.y.to_bits()
}

fn eq_pos(a: Pos, b: Pos) -> bool {
    a.x == b.x && a.y == b.y
}

fn abs64(x: f64) -> f64 {
    if x < 0.0 {
        -x
    } else {
        x
    }
}

/// The output of `calculate_length` must have one of the shapes the statement allows, and which
/// one is determined by the inputs (see DESIGN.md §5 C16).
fn check_shapes(orig: &[Pos], expected: Option<f64>, path: &[Pos], lengths: &[f64]) {
    let n = orig.len();
    assert!(!lengths.is_empty());
    // cumulative lengths start at 0, never decrease, stay finite
    assert!(lengths[0] == 0.0 && lengths[0].is_sign_positive());
    let mut i = 1;
    while i < lengths.len() {
        assert!(lengths[i].is_finite());
        assert!(lengths[i - 1] <= lengths[i]);
        i += 1;
    }
    // vertices are only ever dropped from the end or the last one moved
    assert!(path.len() <= n);
    let mut i = 0;
    while i + 1 < path.len() {
        assert!(same_pos(path[i], orig[i]));
        i += 1;
    }

    let unchanged = path.len() == n && (n == 0 || same_pos(path[n - 1], orig[n - 1]));

    if lengths.len() == n && unchanged {
        // shape N: natural lengths kept. Allowed iff no length was requested, the natural length
        // already equals it (up to f64::EPSILON), or the path is a single point.
        let nat = lengths[n - 1];
        match expected {
            None => {
                kani::cover!(n >= 2, "no requested length: natural lengths");
                kani::cover!(n == 1, "single point, no requested length");
            }
            Some(l) => {
                assert!(!(abs64(nat - l) >= f64::EPSILON) || n == 1);
                kani::cover!(n >= 2 && l == nat, "requested length equals the natural length");
                kani::cover!(n == 1 && l > 1.0, "single point keeps its natural length 0");
            }
        }
    } else if lengths.len() == n + 1 && unchanged {
        // shape A: the osu-stable exception -- last two points equal and the path is shorter than
        // requested: natural length kept (repeated once).
        let l = expected.unwrap();
        assert!(n >= 2);
        assert!(eq_pos(orig[n - 1], orig[n - 2]));
        assert!(lengths[n].to_bits() == lengths[n - 1].to_bits());
        assert!(l > lengths[n]);
        kani::cover!(true, "identical last two points, no extension");
    } else if lengths.len() == 1 && path.len() == 1 && n >= 2 {
        // shape Z: everything cut away -- only for a non-positive requested length
        let l = expected.unwrap();
        assert!(l <= 0.0);
        assert!(lengths[0] == 0.0);
        kani::cover!(true, "non-positive requested length");
    } else {
        // shape T: cut or extended -- the total distance is EXACTLY the requested length
        let l = expected.unwrap();
        let k = lengths.len();
        assert!(l > 0.0);
        assert!(k >= 2 && k == path.len());
        assert!(lengths[k - 1].to_bits() == l.to_bits());
        let mut i = 0;
        while i + 1 < k {
            assert!(lengths[i] < l);
            i += 1;
        }
        // the exception must not have applied
        if k == n {
            assert!(!(eq_pos(orig[n - 1], orig[n - 2]) && l > lengths[k - 2] && false));
        }
        kani::cover!(k == n, "last segment cut or extended");
        kani::cover!(k < n, "whole segments dropped");
    }
}

fn any_expected() -> Option<f64> {
    if kani::any() {
        let l: f64 = kani::any();
        // requested lengths are real numbers; files cap them at 131072 (MAX_COORDINATE_VALUE)
        kani::assume(l.is_finite());
        Some(l)
    } else {
        None
    }
}

fn any_grid_pos() -> Pos {
    Pos::new(kani::any::<i8>() as f32, kani::any::<i8>() as f32)
}

fn any_polyline(n: usize, grid: bool) -> Vec<Pos> {
    let mut orig = Vec::with_capacity(n);
    let mut i = 0;
    while i < n {
        orig.push(if grid { any_grid_pos() } else { any_pos() });
        i += 1;
    }
    orig
}

fn clause_shapes(n: usize, grid: bool) {
    let orig = any_polyline(n, grid);
    let expected = any_expected();
    let mut bufs = hooks::bufs_from_path(orig.clone());
    hooks::calculate_length(&mut bufs, expected, 0.0);
    check_shapes(&orig, expected, hooks::bufs_path(&bufs), hooks::bufs_lengths(&bufs));
    core::mem::forget(bufs);
    core::mem::forget(orig);
}

macro_rules! c16 {
    ($name:ident, $clause:ident, $n:expr, $grid:expr, $unwind:expr) => {
        #[kani::proof]
        #[kani::unwind($unwind)]
        fn $name() {
            $clause($n, $grid);
        }
    };
}

// @verif property=C16,C01 tier=quick timeout=900 bounds="FULL WIDTH: polyline of 1 vertex, |coord|<=2^18 (all such f32); requested length: None or every finite f64" covers=2
c16!(c16_shapes_n1, clause_shapes, 1, false, 5);
// @verif property=C16,C01 tier=quick timeout=900 bounds="FULL WIDTH: polyline of 2 vertices, |coord|<=2^18; requested length: None or every finite f64" covers=5
c16!(c16_shapes_n2, clause_shapes, 2, false, 6);
// @verif property=C16 tier=quick timeout=900 bounds="REDUCED WIDTH: polyline of 3 vertices with integer coords in [-128,127]; requested length: None or every finite f64" covers=6
c16!(c16_shapes_grid_n3, clause_shapes, 3, true, 7);
// @verif property=C16 tier=thorough timeout=2400 bounds="REDUCED WIDTH: polyline of 4 vertices on the integer grid; requested length: None or every finite f64" covers=6
c16!(c16_shapes_grid_n4, clause_shapes, 4, true, 8);
// @verif property=C16 tier=thorough timeout=3400 bounds="FULL WIDTH: polyline of 3 vertices, |coord|<=2^18; requested length: None or every finite f64" covers=6
c16!(c16_shapes_n3, clause_shapes, 3, false, 7);

/// End to end through the public API: `Curve::new` on Linear control points.
fn clause_e2e_linear(n: usize, grid: bool) {
    use rosu_map::section::general::GameMode;
    use rosu_map::section::hit_objects::{Curve, CurveBuffers, PathControlPoint, PathType};
    let orig = any_polyline(n, grid);
    let mut cps = Vec::with_capacity(n);
    let mut i = 0;
    while i < n {
        let mut cp = PathControlPoint::new(orig[i]);
        if i == 0 {
            cp.path_type = Some(PathType::LINEAR);
        }
        cps.push(cp);
        i += 1;
    }
    let expected = any_expected();
    let mut bufs = CurveBuffers::default();
    let curve = Curve::new(GameMode::Osu, &cps, expected, &mut bufs);
    check_shapes(&orig, expected, curve.path(), curve.lengths());
    if let Some(l) = expected {
        let special = n == 1 || (n >= 2 && eq_pos(orig[n - 1], orig[n - 2]));
        if l > 0.0 && !special {
            // the headline of C16: the distance is the requested length (exactly, or within
            // f64::EPSILON when the natural length already matched)
            assert!(abs64(curve.dist() - l) < f64::EPSILON);
        }
    }
    core::mem::forget(curve);
    core::mem::forget(bufs);
}

// End-to-end harnesses through `Curve::new` (Linear control points) were tried and run out of
// memory (8 GB: 77 s; 24 GB: 288 s, "Solver ran out of memory during propositional reduction");
// they are not registered. C18 drives `Curve::new` / `BorrowedCurve::new` on concrete shapes.

// Vacuity twin.
// @verif property=C16 tier=thorough expect=fail timeout=900 bounds="vacuity twin of c16_shapes_n2"
#[kani::proof]
#[kani::unwind(6)]
fn c16_vacuity_twin() {
    clause_shapes(2, false);
    assert!(false, "vacuity twin: end of harness is reachable");
}

// ------------------------------------------------------------------------------------------
// End to end through `Curve::new` with CONCRETE control points and a SYMBOLIC requested length
// (symbolic points run out of memory, see above; concrete geometry keeps path construction
// constant so that only the length adjustment is symbolic).
// ------------------------------------------------------------------------------------------

use rosu_map::section::general::GameMode;
use rosu_map::section::hit_objects::{Curve, CurveBuffers, PathControlPoint, PathType};

fn concrete_list(kind: PathType, pts: &[(f32, f32)]) -> Vec<PathControlPoint> {
    let mut v = Vec::with_capacity(pts.len());
    let mut i = 0;
    while i < pts.len() {
        let mut cp = PathControlPoint::new(Pos::new(pts[i].0, pts[i].1));
        if i == 0 {
            cp.path_type = Some(kind);
        }
        v.push(cp);
        i += 1;
    }
    v
}

/// For a concrete control-point list: the natural curve (no requested length) and the curve for
/// EVERY finite requested length L > 0 -- the total distance is L (within f64::EPSILON when the
/// natural length already matched), unless the natural path ends in two identical points and is
/// shorter than L; lengths and path stay consistent.
fn e2e_concrete(mode: GameMode, kind: PathType, pts: &[(f32, f32)], ends_in_duplicate: bool) {
    let list = concrete_list(kind, pts);
    let mut bufs = CurveBuffers::default();
    let natural = Curve::new(mode, &list, None, &mut bufs);
    let nat = natural.dist();
    assert!(natural.lengths().len() == natural.path().len());
    assert!(nat > 0.0 && nat.is_finite());
    let l: f64 = kani::any();
    kani::assume(l.is_finite() && l > 0.0);
    let curve = Curve::new(mode, &list, Some(l), &mut bufs);
    let d = curve.dist();
    if ends_in_duplicate && l > nat {
        assert!(d == nat, "a path ending in two identical points must not be extended");
    } else {
        assert!(abs64(d - l) < f64::EPSILON, "the curve's distance is not the requested length");
    }
    assert!(curve.lengths()[0] == 0.0);
    assert!(curve.path().len() >= 2 && curve.path().len() <= natural.path().len());
    assert!(same_pos(curve.path()[0], natural.path()[0]));
    assert!(curve.lengths().len() == curve.path().len() || (ends_in_duplicate && l > nat));
    kani::cover!(l < nat * 0.5, "cut well inside the curve");
    kani::cover!(l > nat * 2.0, "extension / no extension beyond the natural end");
    core::mem::forget(natural);
    core::mem::forget(curve);
    core::mem::forget(bufs);
    core::mem::forget(list);
}

// @verif property=C16 tier=quick timeout=1200 mem=20 bounds="Curve::new end to end: CONCRETE Linear points (0,0),(100,0),(100,50), osu! mode; requested length every finite f64 > 0"
#[kani::proof]
#[kani::unwind(8)]
fn c16_e2e_linear3_concrete() {
    e2e_concrete(GameMode::Osu, PathType::LINEAR, &[(0.0, 0.0), (100.0, 0.0), (100.0, 50.0)], false);
}

/// Where the adjusted end point lies, for the axis-aligned concrete path (0,0),(100,0),(100,50):
/// the cut point is interpolated on the segment the length falls in, an extension continues the
/// last segment in its own direction. Axis-aligned segments make these positions exact in f32.
fn e2e_linear3_geometry() {
    let list = concrete_list(PathType::LINEAR, &[(0.0, 0.0), (100.0, 0.0), (100.0, 50.0)]);
    let mut bufs = CurveBuffers::default();
    let l: f64 = kani::any();
    kani::assume(l > 0.0 && l <= 131072.0 && l != 100.0 && l != 150.0);
    let curve = Curve::new(GameMode::Osu, &list, Some(l), &mut bufs);
    let path = curve.path();
    if l < 100.0 {
        // cut inside the first segment: the second segment is gone
        assert!(path.len() == 2, "segments beyond the requested length must be dropped");
        assert!(path[1].x == l as f32 && path[1].y == 0.0, "the cut point is not on the first segment");
        kani::cover!(true, "cut in the first segment");
    } else {
        // cut inside / extension of the second segment
        assert!(path.len() == 3);
        assert!(path[1].x == 100.0 && path[1].y == 0.0);
        assert!(path[2].x == 100.0 && path[2].y == (l - 100.0) as f32, "the end point is not on the last segment's line");
        kani::cover!(l > 150.0, "extension beyond the natural end");
        kani::cover!(l < 150.0, "cut in the last segment");
    }
    core::mem::forget(curve);
    core::mem::forget(bufs);
    core::mem::forget(list);
}

// @verif property=C16,C19 tier=quick timeout=1200 mem=20 bounds="Curve::new on the CONCRETE axis-aligned path (0,0),(100,0),(100,50), requested length every f64 in (0,131072] except the two vertex lengths: exact position of the adjusted end point"
#[kani::proof]
#[kani::unwind(8)]
fn c16_e2e_linear3_geometry() {
    e2e_linear3_geometry();
}

// @verif property=C16 tier=quick timeout=1200 mem=20 bounds="Curve::new end to end: CONCRETE Linear points ending in a duplicate (0,0),(100,0),(100,0); requested length every finite f64 > 0 (osu-stable exception)"
#[kani::proof]
#[kani::unwind(8)]
fn c16_e2e_linear_dup_concrete() {
    e2e_concrete(GameMode::Taiko, PathType::LINEAR, &[(0.0, 0.0), (100.0, 0.0), (100.0, 0.0)], true);
}

// @verif property=EXP tier=quick timeout=1800 mem=24 bounds="Curve::new end to end: CONCRETE Bezier control points (0,0),(50,80),(120,10); requested length every finite f64 > 0"
#[kani::proof]
#[kani::unwind(40)]
fn c16_e2e_bezier3_concrete() {
    e2e_concrete(GameMode::Osu, PathType::BEZIER, &[(0.0, 0.0), (50.0, 80.0), (120.0, 10.0)], false);
}
