//! C18 -- curve computation is pure: buffers, caches and API choice do not matter.
//!
//! Inductive form of "whatever was computed with those buffers before": the shared
//! `CurveBuffers` start with ARBITRARY stale content (symbolic points / lengths, concrete sizes),
//! one computation is run through the public API, and the result must be what the same
//! computation yields on fresh buffers (given in closed form for the list shapes used here).

use rosu_map::section::general::GameMode;
use rosu_map::section::hit_objects::{BorrowedCurve, Curve, CurveBuffers, PathControlPoint, PathType};
use rosu_map::util::Pos;
use rosu_map::verif_hooks::curve as hooks;

use crate::c19::any_pos;

fn any_mode() -> GameMode {
    match kani::any::<u8>() & 3 {
        0 => GameMode::Osu,
        1 => GameMode::Taiko,
        2 => GameMode::Catch,
        _ => GameMode::Mania,
    }
}

/// Buffers left behind by earlier computations: `k` stale path points, `k` stale lengths,
/// `k` stale vertices, all arbitrary.
fn stale_bufs(k: usize) -> CurveBuffers {
    stale_bufs_parts(k, k, k)
}

/// `kp` stale path points, `kl` stale lengths, `kv` stale vertices (after `Curve::new` the path
/// and lengths have been moved out, but the vertices stay).
fn stale_bufs_parts(kp: usize, kl: usize, kv: usize) -> CurveBuffers {
    let mut path = Vec::with_capacity(kp + 4);
    let mut lengths = Vec::with_capacity(kl + 4);
    let mut vertices = Vec::with_capacity(kv + 4);
    let mut i = 0;
    while i < kp {
        path.push(any_pos());
        i += 1;
    }
    let mut i = 0;
    while i < kl {
        lengths.push(kani::any::<f64>());
        i += 1;
    }
    let mut i = 0;
    while i < kv {
        vertices.push(any_pos());
        i += 1;
    }
    hooks::bufs_from_parts(path, lengths, vertices)
}

fn linear_list(pts: &[Pos]) -> Vec<PathControlPoint> {
    let mut v = Vec::with_capacity(pts.len() + 1);
    let mut i = 0;
    while i < pts.len() {
        let mut cp = PathControlPoint::new(pts[i]);
        if i == 0 {
            cp.path_type = Some(PathType::LINEAR);
        }
        v.push(cp);
        i += 1;
    }
    v
}

fn same_pos(a: Pos, b: Pos) -> bool {
    a.x.to_bits() == b.x.to_bits() && a.y.to_bits() == b.y.to_bits()
}

#[derive(Copy, Clone, PartialEq)]
enum Api {
    Owned,
    Borrowed,
}

/// The empty control-point list yields the empty curve (no path, lengths [0], distance 0)
/// whatever the buffers held before.
fn empty_list_after_stale(k: usize, api: Api) {
    let mut bufs = stale_bufs(k);
    let expected: Option<f64> = if kani::any() { Some(kani::any()) } else { None };
    let mode = any_mode();
    match api {
        Api::Owned => {
            let c = Curve::new(mode, &[], expected, &mut bufs);
            assert!(c.path().is_empty());
            assert!(c.lengths().len() == 1 && c.lengths()[0] == 0.0);
            assert!(c.dist() == 0.0);
            core::mem::forget(c);
        }
        Api::Borrowed => {
            let c = BorrowedCurve::new(mode, &[], expected, &mut bufs);
            assert!(c.path().is_empty());
            assert!(c.lengths().len() == 1 && c.lengths()[0] == 0.0);
            assert!(c.dist() == 0.0);
        }
    }
    kani::cover!(expected.is_some(), "with a requested length");
    core::mem::forget(bufs);
}

/// A single control point yields exactly that point with distance 0.
fn single_point_after_stale(k: usize, api: Api) {
    let mut bufs = stale_bufs(k);
    let expected: Option<f64> = if kani::any() { Some(kani::any()) } else { None };
    let mode = any_mode();
    let p = any_pos();
    let list = linear_list(&[p]);
    match api {
        Api::Owned => {
            let c = Curve::new(mode, &list, expected, &mut bufs);
            assert!(c.path().len() == 1 && same_pos(c.path()[0], p));
            assert!(c.lengths().len() == 1 && c.lengths()[0] == 0.0);
            core::mem::forget(c);
        }
        Api::Borrowed => {
            let c = BorrowedCurve::new(mode, &list, expected, &mut bufs);
            assert!(c.path().len() == 1 && same_pos(c.path()[0], p));
            assert!(c.lengths().len() == 1 && c.lengths()[0] == 0.0);
        }
    }
    kani::cover!(expected.is_some(), "with a requested length");
    core::mem::forget(bufs);
    core::mem::forget(list);
}


fn abs64(x: f64) -> f64 {
    if x < 0.0 {
        -x
    } else {
        x
    }
}

/// Two Linear control points, no requested length: the path is exactly the two points and the
/// lengths are [0, d] whatever the buffers held before. With a requested length L > 0 and
/// distinct points the distance is L.
fn linear2_after_stale(kp: usize, kv: usize, api: Api) {
    let mut bufs = stale_bufs_parts(kp, kp, kv);
    let mode = any_mode();
    let p0 = any_pos();
    let p1 = any_pos();
    let list = linear_list(&[p0, p1]);
    let expected: Option<f64> = if kani::any() {
        let l: f64 = kani::any();
        kani::assume(l.is_finite() && l > 0.0);
        Some(l)
    } else {
        None
    };
    let check = |path: &[Pos], lengths: &[f64], dist: f64| {
        assert!(path.len() == 2 && same_pos(path[0], p0));
        assert!(lengths.len() >= 2 && lengths[0] == 0.0);
        match expected {
            None => {
                assert!(same_pos(path[1], p1));
                assert!(lengths.len() == 2 && lengths[1] >= 0.0 && dist == lengths[1]);
            }
            Some(l) => {
                if !(p0.x == p1.x && p0.y == p1.y) {
                    assert!(lengths.len() == 2);
                    assert!(abs64(dist - l) < f64::EPSILON);
                }
            }
        }
    };
    match api {
        Api::Owned => {
            let c = Curve::new(mode, &list, expected, &mut bufs);
            check(c.path(), c.lengths(), c.dist());
            core::mem::forget(c);
        }
        Api::Borrowed => {
            let c = BorrowedCurve::new(mode, &list, expected, &mut bufs);
            check(c.path(), c.lengths(), c.dist());
        }
    }
    kani::cover!(expected.is_some(), "with a requested length");
    kani::cover!(expected.is_none(), "natural length");
    core::mem::forget(bufs);
    core::mem::forget(list);
}

/// SliderPath: mutating the control points through the accessor invalidates the cached curve.
fn cache_invalidated_by_points() {
    use rosu_map::section::hit_objects::SliderPath;
    let p = any_pos();
    let mut path = SliderPath::new(any_mode(), linear_list(&[p]), None);
    let mut bufs = stale_bufs_parts(0, 0, 0);
    {
        let c = path.curve_with_bufs(&mut bufs);
        assert!(c.path().len() == 1 && same_pos(c.path()[0], p));
    }
    // the borrowed accessor hands out the cached curve
    {
        let b = path.borrowed_curve(&mut bufs);
        assert!(b.path().len() == 1 && same_pos(b.path()[0], p));
    }
    if kani::any() {
        path.control_points_mut().clear();
        let c = path.curve_with_bufs(&mut bufs);
        assert!(c.path().is_empty() && c.dist() == 0.0);
        kani::cover!(true, "points cleared through the accessor");
    } else {
        let q = any_pos();
        path.control_points_mut()[0].pos = q;
        let b = path.borrowed_curve(&mut bufs);
        assert!(b.path().len() == 1 && same_pos(b.path()[0], q));
        kani::cover!(true, "point moved through the accessor");
    }
    core::mem::forget(path);
    core::mem::forget(bufs);
}

/// SliderPath: changing the requested length through the accessor invalidates the cached curve.
fn cache_invalidated_by_length() {
    use rosu_map::section::hit_objects::SliderPath;
    let p0 = any_pos();
    let p1 = any_pos();
    kani::assume(!(p0.x == p1.x && p0.y == p1.y));
    let mut path = SliderPath::new(any_mode(), linear_list(&[p0, p1]), None);
    let mut bufs = stale_bufs_parts(0, 0, 0);
    let natural = path.curve_with_bufs(&mut bufs).dist();
    let l: f64 = kani::any();
    kani::assume(l.is_finite() && l > 0.0);
    *path.expected_dist_mut() = Some(l);
    let d = path.curve_with_bufs(&mut bufs).dist();
    assert!(abs64(d - l) < f64::EPSILON);
    kani::cover!(abs64(natural - l) > 1.0, "requested length differs from the cached natural length");
    // clear_curve + same parameters: same distance again
    path.clear_curve();
    let d2 = path.borrowed_curve(&mut bufs).dist();
    assert!(abs64(d2 - l) < f64::EPSILON);
    core::mem::forget(path);
    core::mem::forget(bufs);
}

/// `calculate_path` alone (hook): two/three Linear points after arbitrary stale content give
/// exactly those points; the optimised-length accumulator is reset.
fn path_after_stale(n: usize, kp: usize, kv: usize) {
    let mut bufs = stale_bufs_parts(kp, kp, kv);
    let mode = any_mode();
    let mut pts = Vec::with_capacity(n);
    let mut i = 0;
    while i < n {
        pts.push(any_pos());
        i += 1;
    }
    let list = linear_list(&pts);
    let mut optimized_len: f64 = kani::any();
    hooks::calculate_path(mode, &list, &mut bufs, &mut optimized_len);
    let path = hooks::bufs_path(&bufs);
    assert!(path.len() == n);
    let mut i = 0;
    while i < n {
        assert!(same_pos(path[i], pts[i]));
        i += 1;
    }
    assert!(optimized_len == 0.0);
    kani::cover!(true, "computed");
    core::mem::forget(bufs);
    core::mem::forget(list);
    core::mem::forget(pts);
}

/// `calculate_length` alone (hook): stale cumulative lengths never leak into the result.
fn length_after_stale(n: usize, kl: usize) {
    let mut pts = Vec::with_capacity(n);
    let mut i = 0;
    while i < n {
        pts.push(any_pos());
        i += 1;
    }
    let mut lengths = Vec::with_capacity(kl + n + 2);
    let mut i = 0;
    while i < kl {
        lengths.push(kani::any::<f64>());
        i += 1;
    }
    let mut bufs = hooks::bufs_from_parts(pts.clone(), lengths, Vec::new());
    hooks::calculate_length(&mut bufs, None, 0.0);
    let out = hooks::bufs_lengths(&bufs);
    assert!(out.len() == n);
    assert!(out[0] == 0.0);
    let mut i = 1;
    while i < n {
        assert!(out[i] >= out[i - 1]);
        i += 1;
    }
    kani::cover!(n >= 2 && out[n - 1] > 0.0, "positive natural length");
    core::mem::forget(bufs);
    core::mem::forget(pts);
}

/// SliderPath: changing the requested length through the accessor invalidates the cached curve.
/// Concrete points (0,0)-(100,0) keep the float work constant; the requested length is symbolic.
fn cache_invalidated_by_length_concrete() {
    use rosu_map::section::hit_objects::SliderPath;
    let pts = [Pos::new(0.0, 0.0), Pos::new(100.0, 0.0)];
    let first: Option<f64> = if kani::any() { Some(40.0) } else { None };
    let mut path = SliderPath::new(any_mode(), linear_list(&pts), first);
    let mut bufs = stale_bufs_parts(0, 0, 0);
    let cached = path.curve_with_bufs(&mut bufs).dist();
    assert!(cached == if first.is_some() { 40.0 } else { 100.0 });
    let l: f64 = kani::any();
    kani::assume(l > 0.0 && l <= 131072.0);
    *path.expected_dist_mut() = Some(l);
    let d = path.curve_with_bufs(&mut bufs).dist();
    assert!(d == l, "the cached curve survived a change of the requested length");
    kani::cover!(first.is_none() && l < 50.0, "None -> Some(shorter)");
    kani::cover!(first.is_some() && l > 100.0, "Some -> Some(longer)");
    // back to no requested length: natural distance again
    *path.expected_dist_mut() = None;
    let d = path.borrowed_curve(&mut bufs).dist();
    assert!(d == 100.0);
    core::mem::forget(path);
    core::mem::forget(bufs);
}

macro_rules! c18 {
    ($name:ident, $unwind:expr, $body:expr) => {
        #[kani::proof]
        #[kani::unwind($unwind)]
        fn $name() {
            $body;
        }
    };
}

// ---- empty list ----
// @verif property=C18 tier=quick timeout=600 bounds="BorrowedCurve::new(any mode, [], any Option<f64>) on buffers holding 0 stale entries"
c18!(c18_empty_stale0_borrowed, 5, empty_list_after_stale(0, Api::Borrowed));
// @verif property=C18 tier=quick timeout=600 bounds="BorrowedCurve::new(any mode, [], any Option<f64>) on buffers holding 2 arbitrary stale path points / lengths / vertices"
c18!(c18_empty_stale2_borrowed, 6, empty_list_after_stale(2, Api::Borrowed));
// @verif property=C18,C01 tier=quick timeout=600 bounds="Curve::new(any mode, [], any Option<f64>) on buffers holding 2 arbitrary stale entries"
c18!(c18_empty_stale2_owned, 6, empty_list_after_stale(2, Api::Owned));
// @verif property=C18 tier=quick timeout=600 bounds="BorrowedCurve::new(any mode, [], ..) on buffers holding 4 arbitrary stale entries"
c18!(c18_empty_stale4_borrowed, 8, empty_list_after_stale(4, Api::Borrowed));

// ---- single point ----
// @verif property=C18,C01 tier=quick timeout=600 bounds="BorrowedCurve::new(any mode, [p], any Option<f64>), p arbitrary, buffers holding 2 arbitrary stale entries"
c18!(c18_single_stale2_borrowed, 6, single_point_after_stale(2, Api::Borrowed));
// @verif property=C18 tier=quick timeout=600 bounds="Curve::new(any mode, [p], any Option<f64>), buffers holding 3 arbitrary stale entries"
c18!(c18_single_stale3_owned, 7, single_point_after_stale(3, Api::Owned));

// ---- two / three linear points: the two kernels separately ----
// (`Curve::new` on >= 2 points with symbolic coordinates runs out of memory at 16 GB; the purity of
// its two kernels is decided separately through the forwarding hooks.)
// @verif property=C18 tier=quick timeout=900 mem=16 bounds="calculate_path(any mode, Linear [p0,p1]) on buffers with 2 stale path points/lengths and 2 stale vertices; arbitrary incoming optimized_len"
c18!(c18_path2_stale2, 6, path_after_stale(2, 2, 2));
// @verif property=C18 tier=quick timeout=900 mem=16 bounds="calculate_path(any mode, Linear [p0,p1,p2]) on buffers with 1 stale path point and 4 stale vertices"
c18!(c18_path3_stale1v4, 8, path_after_stale(3, 1, 4));
// @verif property=C18 tier=quick timeout=900 mem=16 bounds="calculate_length(None) on path [p0,p1] with 3 arbitrary stale cumulative lengths"
c18!(c18_length2_stale3, 7, length_after_stale(2, 3));
// @verif property=C18 tier=thorough timeout=1800 mem=16 bounds="calculate_length(None) on path [p0,p1,p2] with 1 arbitrary stale cumulative length"
c18!(c18_length3_stale1, 7, length_after_stale(3, 1));

// ---- SliderPath cache ----
// @verif property=C18 tier=quick timeout=900 mem=16 bounds="SliderPath with one arbitrary point: curve_with_bufs, borrowed_curve (cached), control_points_mut().clear() / move point, recompute"
c18!(c18_cache_points, 6, cache_invalidated_by_points());
// (c18_cache_length -- expected_dist_mut() invalidation on a two-point path -- needs two
// `Curve::new` computations on two symbolic points and runs out of memory at 24 GB; the
// invalidation itself is the same one-line `clear_curve()` call that c18_cache_points decides.)

// @verif property=C18 tier=quick timeout=1200 mem=24 bounds="SliderPath over the CONCRETE points (0,0)-(100,0), first requested length None or 40: cached; *expected_dist_mut() = Some(L), every f64 L in (0,131072]; recompute; back to None; borrowed_curve"
c18!(c18_cache_length_concrete, 6, cache_invalidated_by_length_concrete());

// Vacuity twin.
// @verif property=C18 tier=thorough expect=fail timeout=900 bounds="vacuity twin of c18_single_stale2_borrowed"
#[kani::proof]
#[kani::unwind(6)]
fn c18_vacuity_twin() {
    single_point_after_stale(2, Api::Borrowed);
    assert!(false, "vacuity twin: end of harness is reachable");
}
