//! C19 -- position along a curve: clamp, end points, vertex hits.
//!
//! The curve is an ARBITRARY valid (path, lengths) pair built through the `curve_from_raw` hook;
//! `progress` is an arbitrary f64. One clause per harness (a combined harness does not finish).

use rosu_map::section::hit_objects::Curve;
use rosu_map::util::Pos;
use rosu_map::verif_hooks::curve as hooks;

pub const COORD_MAX: f32 = 262144.0; // 2^18

pub fn any_coord() -> f32 {
    let c: f32 = kani::any();
    kani::assume(c >= -COORD_MAX && c <= COORD_MAX);
    c
}

pub fn any_pos() -> Pos {
    Pos::new(any_coord(), any_coord())
}

/// An arbitrary curve satisfying the invariant that computed curves satisfy:
/// `lengths[0] == 0`, non-decreasing, finite, `lengths.len()` is `n` (or `n + 1` with the last
/// two lengths and the last two points equal -- the osu-stable "no extension" shape), and a
/// segment is either longer than f64::EPSILON or has identical end points.
pub fn any_valid_curve(n: usize, extra: bool) -> (Curve, Vec<Pos>, Vec<f64>) {
    let mut path = Vec::with_capacity(n);
    let mut i = 0;
    while i < n {
        path.push(any_pos());
        i += 1;
    }
    let m = if n == 0 { 1 } else if extra { n + 1 } else { n };
    let mut lengths: Vec<f64> = Vec::with_capacity(m);
    lengths.push(0.0);
    let mut i = 1;
    while i < m {
        let l: f64 = kani::any();
        kani::assume(l.is_finite());
        let prev = lengths[i - 1];
        kani::assume(l >= prev);
        if i < n {
            let same = path[i].x == path[i - 1].x && path[i].y == path[i - 1].y;
            kani::assume(l - prev > f64::EPSILON || same);
        } else {
            // the extra entry repeats the total length; the last two points are equal
            kani::assume(l == prev);
            kani::assume(n >= 2 && path[n - 1].x == path[n - 2].x && path[n - 1].y == path[n - 2].y);
        }
        lengths.push(l);
        i += 1;
    }
    let curve = hooks::curve_from_raw(path.clone(), lengths.clone());
    (curve, path, lengths)
}


use crate::refmodel::curve as rm;

fn same_pos(a: Pos, b: Pos) -> bool {
    a.x.to_bits() == b.x.to_bits() && a.y.to_bits() == b.y.to_bits()
}

/// (A) progress_to_dist: exact outside (0, 1); NaN does not panic; dist() is the last length.
fn clause_dist_outer(n: usize, extra: bool) {
    let (curve, _path, lengths) = any_valid_curve(n, extra);
    let p: f64 = kani::any();
    kani::assume(!(p > 0.0 && p < 1.0));
    let total = curve.dist();
    assert!(total == lengths[lengths.len() - 1]);
    let d = curve.progress_to_dist(p);
    if p <= 0.0 {
        assert!(d == 0.0);
    } else if p >= 1.0 {
        assert!(d == total);
    }
    kani::cover!(p < 0.0, "progress below 0 is clamped");
    kani::cover!(p > 1.0 && total > 0.0, "progress above 1 is clamped");
    kani::cover!(p.is_nan(), "NaN progress does not panic");
    core::mem::forget(curve);
}

/// (A') inside (0, 1): the distance is bit-for-bit progress x total distance.
fn clause_dist_inner(n: usize, extra: bool) {
    let (curve, _path, _lengths) = any_valid_curve(n, extra);
    let p: f64 = kani::any();
    kani::assume(p > 0.0 && p < 1.0);
    let total = curve.dist();
    let d = curve.progress_to_dist(p);
    assert!(d.to_bits() == (p * total).to_bits());
    kani::cover!(d > 0.0 && d < total, "strictly inside");
    core::mem::forget(curve);
}

/// (B) idx_of_dist returns an index that brackets the distance, for every f64 distance.
fn clause_idx(n: usize, extra: bool) {
    let (curve, _path, lengths) = any_valid_curve(n, extra);
    let d: f64 = kani::any();
    let i = curve.idx_of_dist(d);
    assert!(i <= lengths.len());
    if !d.is_nan() {
        assert!(rm::brackets(&lengths, i, d));
    }
    kani::cover!(i == 0, "before / at the first length");
    kani::cover!(i == lengths.len(), "beyond the last length");
    kani::cover!(i > 0 && i < lengths.len() && lengths[i] > d, "strictly inside a segment");
    kani::cover!(i < lengths.len() && lengths[i] == d, "exactly at a vertex length");
    kani::cover!(d.is_nan(), "NaN distance does not panic");
    core::mem::forget(curve);
}

/// (C) interpolate_vertices(i, d) equals the reference interpolation bit for bit, for every
/// index (also out of range) and every f64 distance.
fn clause_interp(n: usize, extra: bool) {
    let (curve, path, lengths) = any_valid_curve(n, extra);
    let d: f64 = kani::any();
    let i: usize = kani::any();
    let got = curve.interpolate_vertices(i, d);
    let want = rm::interpolate(&path, &lengths, i, d);
    assert!(same_pos(got, want));
    kani::cover!(i == 0, "index 0");
    if n >= 1 {
        kani::cover!(i >= n, "index beyond the path");
    }
    if n >= 2 {
        kani::cover!(i > 0 && i < n && lengths[i] - lengths[i - 1] > f64::EPSILON, "proper segment");
        kani::cover!(i > 0 && i < n && lengths[i] == lengths[i - 1], "zero-length segment");
    }
    core::mem::forget(curve);
}

/// (D) position_at(p) is interpolate_vertices at idx_of_dist of progress_to_dist(p), bit for bit.
fn clause_glue(n: usize, extra: bool) {
    let (curve, _path, _lengths) = any_valid_curve(n, extra);
    let p: f64 = kani::any();
    let d = curve.progress_to_dist(p);
    let i = curve.idx_of_dist(d);
    let want = curve.interpolate_vertices(i, d);
    let got = curve.position_at(p);
    assert!(same_pos(got, want));
    kani::cover!(p > 0.0 && p < 1.0, "inside");
    kani::cover!(p.is_nan(), "NaN progress");
    core::mem::forget(curve);
}

/// (E) position_at(p <= 0) is the first vertex; the empty curve gives (0, 0).
fn clause_start(n: usize, extra: bool) {
    let (curve, path, _lengths) = any_valid_curve(n, extra);
    let p: f64 = kani::any();
    kani::assume(p <= 0.0);
    let pos = curve.position_at(p);
    if n == 0 {
        assert!(pos.x == 0.0 && pos.y == 0.0);
    } else {
        // value equality: a zero-length first segment may hand back the equal second vertex,
        // whose zero may carry the other sign
        assert!(pos.x == path[0].x && pos.y == path[0].y);
    }
    kani::cover!(p < -1.0, "far below zero");
    kani::cover!(p == 0.0, "exactly zero");
    core::mem::forget(curve);
}

fn within(a: f32, want: f32, scale: f32) -> bool {
    let tol = 4.0 * f32::EPSILON * scale; // 4 * 2^-23 * max(|p0|, |p1|)
    let d = a - want;
    d <= tol && -d <= tol
}

fn absmax(a: f32, b: f32) -> f32 {
    let a = if a < 0.0 { -a } else { a };
    let b = if b < 0.0 { -b } else { b };
    if a > b {
        a
    } else {
        b
    }
}

/// (F, direct) position_at(p >= 1) is the last vertex up to f32 rounding of the lerp.
fn clause_end(n: usize, extra: bool) {
    let (curve, path, lengths) = any_valid_curve(n, extra);
    let p: f64 = kani::any();
    kani::assume(p >= 1.0);
    let pos = curve.position_at(p);
    let last = path[n - 1];
    let prev = if n >= 2 { path[n - 2] } else { last };
    assert!(within(pos.x, last.x, absmax(last.x, prev.x)));
    assert!(within(pos.y, last.y, absmax(last.y, prev.y)));
    kani::cover!(p > 2.0, "far above one");
    kani::cover!(lengths[lengths.len() - 1] > 0.0, "non-degenerate curve");
    core::mem::forget(curve);
}

/// (G, direct) at each vertex's cumulative length the position is that vertex.
fn clause_vertex(n: usize, extra: bool) {
    let (curve, path, lengths) = any_valid_curve(n, extra);
    let i: usize = kani::any();
    kani::assume(i < n);
    let d = lengths[i];
    let idx = curve.idx_of_dist(d);
    let pos = curve.interpolate_vertices(idx, d);
    let v = path[i];
    let prev = if i >= 1 { path[i - 1] } else { v };
    assert!(within(pos.x, v.x, absmax(v.x, prev.x)));
    assert!(within(pos.y, v.y, absmax(v.y, prev.y)));
    kani::cover!(i == 0, "first vertex");
    kani::cover!(i == n - 1, "last vertex");
    kani::cover!(i > 0 && lengths[i] > lengths[i - 1], "vertex after a proper segment");
    core::mem::forget(curve);
}

/// (L) float lemma used to glue (C) to the end-point / vertex clauses in the quick tier: the
/// lerp the code uses, at weight exactly 1, lands within 4 ulp-scale of the end point.
fn lemma_lerp_at_one() {
    let a = any_coord();
    let b = any_coord();
    let r = a + (b - a) * 1.0f32;
    assert!(within(r, b, absmax(a, b)));
    kani::cover!(r != b, "the lerp is not bit-exact at weight 1");
}

macro_rules! c19 {
    ($name:ident, $clause:ident, $n:expr, $extra:expr, $unwind:expr) => {
        #[kani::proof]
        #[kani::unwind($unwind)]
        fn $name() {
            $clause($n, $extra);
        }
    };
}

/// Reduced-width curve for the quick tier: integer coordinates in [-128, 127], cumulative
/// lengths multiples of 1/2 below 128; same invariant as `any_valid_curve`.
pub fn any_grid_curve(n: usize) -> (Curve, Vec<Pos>, Vec<f64>) {
    let mut path = Vec::with_capacity(n);
    let mut i = 0;
    while i < n {
        path.push(Pos::new(kani::any::<i8>() as f32, kani::any::<i8>() as f32));
        i += 1;
    }
    let mut lengths: Vec<f64> = Vec::with_capacity(n);
    lengths.push(0.0);
    let mut i = 1;
    while i < n {
        let l = kani::any::<u8>() as f64 * 0.5;
        let prev = lengths[i - 1];
        kani::assume(l >= prev);
        let same = path[i].x == path[i - 1].x && path[i].y == path[i - 1].y;
        kani::assume(l > prev || same);
        lengths.push(l);
        i += 1;
    }
    let curve = hooks::curve_from_raw(path.clone(), lengths.clone());
    (curve, path, lengths)
}

/// (G', quick, reduced width) vertex hits are exact on the grid.
fn clause_vertex_grid(n: usize) {
    let (curve, path, lengths) = any_grid_curve(n);
    let i: usize = kani::any();
    kani::assume(i < n);
    let d = lengths[i];
    let pos = curve.interpolate_vertices(curve.idx_of_dist(d), d);
    assert!(pos.x == path[i].x && pos.y == path[i].y);
    kani::cover!(i > 0 && lengths[i] > lengths[i - 1], "vertex after a proper segment");
    core::mem::forget(curve);
}

/// (F', quick, reduced width) position_at(p >= 1) is exactly the last vertex on the grid.
fn clause_end_grid(n: usize) {
    let (curve, path, lengths) = any_grid_curve(n);
    let p: f64 = kani::any();
    kani::assume(p >= 1.0);
    let pos = curve.position_at(p);
    assert!(pos.x == path[n - 1].x && pos.y == path[n - 1].y);
    kani::cover!(lengths[n - 1] > 0.0, "non-degenerate curve");
    core::mem::forget(curve);
}


// ---- quick tier: discrete clauses over all f64, float-heavy clauses at reduced width ----

// @verif property=C19 tier=quick timeout=600 bounds="empty curve (lengths=[0]); progress: every f64 outside (0,1) incl. NaN, +-inf, -0.0" covers=2
c19!(c19_dist_outer_n0, clause_dist_outer, 0, false, 4);
// @verif property=C19 tier=quick timeout=600 bounds="arbitrary valid curve, 2 vertices, |coord|<=2^18, all finite f64 lengths; progress: every f64 outside (0,1) incl. NaN"
c19!(c19_dist_outer_n2, clause_dist_outer, 2, false, 6);
// @verif property=C19 tier=quick timeout=600 bounds="arbitrary valid curve, 4 vertices + repeated last length; progress: every f64 outside (0,1)"
c19!(c19_dist_outer_n4x, clause_dist_outer, 4, true, 8);

// @verif property=C19 tier=quick timeout=600 bounds="idx_of_dist on arbitrary sorted lengths of 1 vertex; d: every f64 incl. NaN" covers=4
c19!(c19_idx_n1, clause_idx, 1, false, 5);
// @verif property=C19 tier=quick timeout=600 bounds="idx_of_dist, 2 vertices; d: every f64" covers=5
c19!(c19_idx_n2, clause_idx, 2, false, 6);
// @verif property=C19 tier=quick timeout=600 bounds="idx_of_dist, 3 vertices; d: every f64"
c19!(c19_idx_n3, clause_idx, 3, false, 7);
// @verif property=C19 tier=quick timeout=600 bounds="idx_of_dist, 4 vertices + repeated last length; d: every f64"
c19!(c19_idx_n4x, clause_idx, 4, true, 8);
// @verif property=C19 tier=thorough timeout=1200 bounds="idx_of_dist, 6 vertices; d: every f64"
c19!(c19_idx_n6, clause_idx, 6, false, 10);

// @verif property=C19 tier=quick timeout=600 bounds="empty curve; progress <= 0 (all such f64)"
c19!(c19_start_n0, clause_start, 0, false, 4);
// @verif property=C19 tier=quick timeout=600 bounds="1 vertex; progress <= 0"
c19!(c19_start_n1, clause_start, 1, false, 5);
// @verif property=C19 tier=quick timeout=600 bounds="2 vertices, |coord|<=2^18, all valid lengths; progress <= 0"
c19!(c19_start_n2, clause_start, 2, false, 6);
// @verif property=C19 tier=quick timeout=600 bounds="3 vertices; progress <= 0"
c19!(c19_start_n3, clause_start, 3, false, 7);
// @verif property=C19 tier=quick timeout=600 bounds="4 vertices + repeated last length; progress <= 0"
c19!(c19_start_n4x, clause_start, 4, true, 8);

// @verif property=C19 tier=quick timeout=600 bounds="REDUCED WIDTH: 2 vertices with integer coords in [-128,127], cumulative lengths multiples of 1/2 below 128; symbolic vertex index; exact equality"
#[kani::proof]
#[kani::unwind(6)]
fn c19_vertex_grid_n2() {
    clause_vertex_grid(2);
}
// @verif property=C19 tier=quick timeout=900 bounds="REDUCED WIDTH: 3 vertices on the integer grid; symbolic vertex index; exact equality"
#[kani::proof]
#[kani::unwind(7)]
fn c19_vertex_grid_n3() {
    clause_vertex_grid(3);
}
// @verif property=C19 tier=quick timeout=900 bounds="REDUCED WIDTH: 3 vertices on the integer grid; progress >= 1 (all such f64); exact equality"
#[kani::proof]
#[kani::unwind(7)]
fn c19_end_grid_n3() {
    clause_end_grid(3);
}
// @verif property=C19 tier=thorough timeout=1800 bounds="REDUCED WIDTH: 4 vertices on the integer grid; symbolic vertex index"
#[kani::proof]
#[kani::unwind(8)]
fn c19_vertex_grid_n4() {
    clause_vertex_grid(4);
}
// @verif property=C19 tier=thorough timeout=1800 bounds="REDUCED WIDTH: 4 vertices on the integer grid; progress >= 1"
#[kani::proof]
#[kani::unwind(8)]
fn c19_end_grid_n4() {
    clause_end_grid(4);
}

// ---- thorough tier: full-width float clauses (kissat) ----

// @verif property=C19 tier=thorough timeout=2400 solver=kissat bounds="FULL WIDTH: 2 vertices, |coord|<=2^18 all f32, all finite f64 lengths; progress >= 1; tolerance 4*2^-23*max(|p0|,|p1|)"
c19!(c19_end_n2, clause_end, 2, false, 6);
// @verif property=C19 tier=thorough timeout=2400 solver=kissat bounds="FULL WIDTH: 2 vertices; symbolic vertex index; tolerance 4*2^-23*max(|p0|,|p1|)"
c19!(c19_vertex_n2, clause_vertex, 2, false, 6);
// @verif property=C19 tier=thorough timeout=3400 solver=kissat bounds="FULL WIDTH: 3 vertices; progress >= 1"
c19!(c19_end_n3, clause_end, 3, false, 7);
// @verif property=C19 tier=thorough timeout=3400 solver=kissat bounds="FULL WIDTH: 3 vertices; symbolic vertex index"
c19!(c19_vertex_n3, clause_vertex, 3, false, 7);
// @verif property=C19 tier=thorough timeout=1800 bounds="FULL WIDTH: 3 vertices; progress in (0,1): distance is bit-for-bit progress*total"
c19!(c19_dist_inner_n3, clause_dist_inner, 3, false, 7);
// @verif property=C19 tier=thorough timeout=900 bounds="pure f32 lemma: a + (b-a)*1.0 within 4*2^-23*max(|a|,|b|) of b for |a|,|b|<=2^18 (no rosu-map code)"
#[kani::proof]
fn c19_lemma_lerp_at_one() {
    lemma_lerp_at_one();
}

// Vacuity twin.
// @verif property=C19 tier=thorough expect=fail timeout=900 bounds="vacuity twin of c19_vertex_grid_n3"
#[kani::proof]
#[kani::unwind(7)]
fn c19_vacuity_twin() {
    clause_vertex_grid(3);
    assert!(false, "vacuity twin: end of harness is reachable");
}

/// A proper but tiny last segment far along the curve (cumulative lengths 0, 1000, 1000.00001;
/// CONCRETE, so the interpolation weight is a constant) with vertices on the integer grid:
/// progress >= 1 must land exactly on the last vertex, and the vertex before it is hit exactly.
fn clause_end_tiny_last_segment() {
    let path = vec![
        Pos::new(kani::any::<i8>() as f32, kani::any::<i8>() as f32),
        Pos::new(kani::any::<i8>() as f32, kani::any::<i8>() as f32),
        Pos::new(kani::any::<i8>() as f32, kani::any::<i8>() as f32),
    ];
    let lengths = vec![0.0, 1000.0, 1000.00001];
    let curve = hooks::curve_from_raw(path.clone(), lengths.clone());
    let p: f64 = kani::any();
    kani::assume(p >= 1.0);
    let end = curve.position_at(p);
    assert!(end.x == path[2].x && end.y == path[2].y, "progress >= 1 is not the last vertex");
    let mid = curve.interpolate_vertices(curve.idx_of_dist(1000.0), 1000.0);
    assert!(mid.x == path[1].x && mid.y == path[1].y, "the position at a vertex's cumulative length is not that vertex");
    kani::cover!(path[2].x != path[1].x, "distinct end points of the tiny segment");
    core::mem::forget(curve);
}

// @verif property=C19 tier=quick timeout=900 bounds="CONCRETE cumulative lengths [0, 1000, 1000.00001] (a segment longer than f64::EPSILON but far below the f32 resolution at 1000), 3 vertices on the integer grid; progress >= 1 and the middle vertex: exact equality"
#[kani::proof]
#[kani::unwind(7)]
fn c19_end_tiny_last_segment() {
    clause_end_tiny_last_segment();
}
