//! Solver-based checks of rosu-map (see /verif/DESIGN.md).
//!
//! Every `#[kani::proof]` harness in this crate symbolically executes functions of the real
//! `rosu-map` crate (path dependency on /repo, compiled from its current working tree on every
//! run). Harness metadata for the `/verif/check` driver lives in `// @verif` comment lines
//! directly above each harness.
#![allow(clippy::all)]
#![allow(dead_code)]

pub mod refmodel;
pub mod util;

#[cfg(kani)]
pub mod stubs;

#[cfg(kani)]
mod smoke;

#[cfg(kani)]
mod c13;

#[cfg(kani)]
mod c19;


#[cfg(kani)]
mod c16;

#[cfg(kani)]
mod c18;

#[cfg(kani)]
mod c08;

#[cfg(kani)]
mod c05;

#[cfg(kani)]
mod c10;

#[cfg(kani)]
mod c03;

#[cfg(kani)]
mod c11;

#[cfg(kani)]
mod c12;

#[cfg(kani)]
mod c14;

#[cfg(kani)]
mod c07;

#[cfg(kani)]
mod c15;

#[cfg(kani)]
mod c01;
