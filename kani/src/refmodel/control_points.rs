//! Reference semantics of the control-point collections (property C13 / C12).

use rosu_map::section::hit_objects::hit_samples::SampleBank;
use rosu_map::section::timing_points::{DifficultyPoint, EffectPoint, SamplePoint, TimingPoint};

use crate::util::f64_bits_eq;

/// Index of the latest stored time that is not after `t` (real-number order), if any.
pub fn active_idx(times: &[f64], t: f64) -> Option<usize> {
    let mut res = None;
    let mut i = 0;
    while i < times.len() {
        if times[i] <= t {
            res = Some(i);
        }
        i += 1;
    }
    res
}

/// Number of stored times strictly before `t`.
pub fn count_before(times: &[f64], t: f64) -> usize {
    let mut n = 0;
    let mut i = 0;
    while i < times.len() {
        if times[i] < t {
            n += 1;
        }
        i += 1;
    }
    n
}

pub fn strictly_increasing(times: &[f64]) -> bool {
    let mut i = 1;
    while i < times.len() {
        if !(times[i - 1] < times[i]) {
            return false;
        }
        i += 1;
    }
    true
}

/// One kind of control point, with its legacy redundancy and lookup rules.
pub trait Kind {
    type P: Clone;
    const NAME: &'static str;
    /// Lookups before the first point return the first point (timing, sample) or nothing.
    const LOOKUP_FALLS_BACK_TO_FIRST: bool;

    fn time(p: &Self::P) -> f64;
    /// Bitwise equality of every field.
    fn same(a: &Self::P, b: &Self::P) -> bool;
    /// Legacy rule: would `p` merely repeat `existing`?
    fn repeats(p: &Self::P, existing: &Self::P) -> bool;
    /// Legacy rule: is a point redundant when no point is active at its time?
    fn repeats_default(p: &Self::P) -> bool;
    /// Points of this kind are never redundant (timing points).
    fn repeats_never() -> bool {
        false
    }
}

pub struct KTiming;
pub struct KDifficulty;
pub struct KEffect;
pub struct KSample;

impl Kind for KTiming {
    type P = TimingPoint;
    const NAME: &'static str = "timing";
    const LOOKUP_FALLS_BACK_TO_FIRST: bool = true;

    fn time(p: &TimingPoint) -> f64 {
        p.time
    }
    fn same(a: &TimingPoint, b: &TimingPoint) -> bool {
        f64_bits_eq(a.time, b.time)
            && f64_bits_eq(a.beat_len, b.beat_len)
            && a.omit_first_bar_line == b.omit_first_bar_line
            && a.time_signature.numerator == b.time_signature.numerator
    }
    // Timing points are never redundant.
    fn repeats(_: &TimingPoint, _: &TimingPoint) -> bool {
        false
    }
    fn repeats_default(_: &TimingPoint) -> bool {
        false
    }
    fn repeats_never() -> bool {
        true
    }
}

impl Kind for KDifficulty {
    type P = DifficultyPoint;
    const NAME: &'static str = "difficulty";
    const LOOKUP_FALLS_BACK_TO_FIRST: bool = false;

    fn time(p: &DifficultyPoint) -> f64 {
        p.time
    }
    fn same(a: &DifficultyPoint, b: &DifficultyPoint) -> bool {
        f64_bits_eq(a.time, b.time)
            && f64_bits_eq(a.slider_velocity, b.slider_velocity)
            && a.generate_ticks == b.generate_ticks
    }
    fn repeats(p: &DifficultyPoint, e: &DifficultyPoint) -> bool {
        let d = p.slider_velocity - e.slider_velocity;
        let close = if d < 0.0 { -d < f64::EPSILON } else { d < f64::EPSILON };
        p.generate_ticks == e.generate_ticks && close
    }
    fn repeats_default(p: &DifficultyPoint) -> bool {
        // default: slider velocity 1, ticks generated
        let d = p.slider_velocity - 1.0;
        let close = if d < 0.0 { -d < f64::EPSILON } else { d < f64::EPSILON };
        p.generate_ticks && close
    }
}

impl Kind for KEffect {
    type P = EffectPoint;
    const NAME: &'static str = "effect";
    const LOOKUP_FALLS_BACK_TO_FIRST: bool = false;

    fn time(p: &EffectPoint) -> f64 {
        p.time
    }
    fn same(a: &EffectPoint, b: &EffectPoint) -> bool {
        f64_bits_eq(a.time, b.time)
            && f64_bits_eq(a.scroll_speed, b.scroll_speed)
            && a.kiai == b.kiai
    }
    fn repeats(p: &EffectPoint, e: &EffectPoint) -> bool {
        let d = p.scroll_speed - e.scroll_speed;
        let close = if d < 0.0 { -d < f64::EPSILON } else { d < f64::EPSILON };
        p.kiai == e.kiai && close
    }
    fn repeats_default(p: &EffectPoint) -> bool {
        // default: no kiai, scroll speed 1
        let d = p.scroll_speed - 1.0;
        let close = if d < 0.0 { -d < f64::EPSILON } else { d < f64::EPSILON };
        !p.kiai && close
    }
}

fn bank_ord(b: SampleBank) -> u8 {
    match b {
        SampleBank::None => 0,
        SampleBank::Normal => 1,
        SampleBank::Soft => 2,
        SampleBank::Drum => 3,
    }
}

impl Kind for KSample {
    type P = SamplePoint;
    const NAME: &'static str = "sample";
    const LOOKUP_FALLS_BACK_TO_FIRST: bool = true;

    fn time(p: &SamplePoint) -> f64 {
        p.time
    }
    fn same(a: &SamplePoint, b: &SamplePoint) -> bool {
        f64_bits_eq(a.time, b.time)
            && bank_ord(a.sample_bank) == bank_ord(b.sample_bank)
            && a.sample_volume == b.sample_volume
            && a.custom_sample_bank == b.custom_sample_bank
    }
    fn repeats(p: &SamplePoint, e: &SamplePoint) -> bool {
        bank_ord(p.sample_bank) == bank_ord(e.sample_bank)
            && p.sample_volume == e.sample_volume
            && p.custom_sample_bank == e.custom_sample_bank
    }
    // A sample point before every existing one is always kept.
    fn repeats_default(_: &SamplePoint) -> bool {
        false
    }
}

/// Outcome of adding `p` to a sorted list `pre`, per the legacy rules.
#[derive(Copy, Clone, Debug, PartialEq, Eq)]
pub enum AddOutcome {
    /// The list is unchanged (the point repeats what is active at its time).
    Dropped,
    /// The point replaces the stored point at index `.0` (same time).
    Replaced(usize),
    /// The point is inserted at index `.0`.
    Inserted(usize),
}

pub fn expected_add<K: Kind>(pre: &[K::P], times: &[f64], p: &K::P) -> AddOutcome {
    let t = K::time(p);
    let redundant = match active_idx(times, t) {
        Some(i) => K::repeats(p, &pre[i]),
        None => K::repeats_default(p),
    };
    if redundant {
        return AddOutcome::Dropped;
    }
    let k = count_before(times, t);
    if k < times.len() && times[k] == t {
        AddOutcome::Replaced(k)
    } else {
        AddOutcome::Inserted(k)
    }
}

/// Does `post` equal the list `pre` after `outcome` was applied with point `p`?
pub fn post_matches<K: Kind>(pre: &[K::P], post: &[K::P], p: &K::P, outcome: AddOutcome) -> bool {
    match outcome {
        AddOutcome::Dropped => {
            if post.len() != pre.len() {
                return false;
            }
            let mut i = 0;
            while i < pre.len() {
                if !K::same(&pre[i], &post[i]) {
                    return false;
                }
                i += 1;
            }
            true
        }
        AddOutcome::Replaced(k) => {
            if post.len() != pre.len() {
                return false;
            }
            let mut i = 0;
            while i < pre.len() {
                let want = if i == k { p } else { &pre[i] };
                if !K::same(want, &post[i]) {
                    return false;
                }
                i += 1;
            }
            true
        }
        AddOutcome::Inserted(k) => {
            if post.len() != pre.len() + 1 {
                return false;
            }
            let mut i = 0;
            while i < post.len() {
                let want = if i < k {
                    &pre[i]
                } else if i == k {
                    p
                } else {
                    &pre[i - 1]
                };
                if !K::same(want, &post[i]) {
                    return false;
                }
                i += 1;
            }
            true
        }
    }
}

/// Expected lookup result as an index into `times` (None = nothing).
pub fn expected_lookup<K: Kind>(times: &[f64], t: f64) -> Option<usize> {
    match active_idx(times, t) {
        Some(i) => Some(i),
        None if K::LOOKUP_FALLS_BACK_TO_FIRST && !times.is_empty() => Some(0),
        None => None,
    }
}
