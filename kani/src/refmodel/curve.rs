//! Reference versions of the arc-length parametrisation (property C19) and of the length
//! adjustment (C16), written from the statements of the properties / osu!lazer's SliderPath
//! (`interpolateVertices`, `indexOfDistance`, `calculateLength`).

use rosu_map::util::Pos;

/// `i` brackets distance `d` in the sorted list `lengths`: everything before `i` is <= d and
/// `lengths[i]` (if any) is >= d.
pub fn brackets(lengths: &[f64], i: usize, d: f64) -> bool {
    if i > lengths.len() {
        return false;
    }
    if i < lengths.len() && !(lengths[i] >= d) {
        return false;
    }
    if i > 0 && !(lengths[i - 1] <= d) {
        return false;
    }
    true
}

/// The point at distance `d` on the segment ending at vertex `i` (clamped to the path's ends).
pub fn interpolate(path: &[Pos], lengths: &[f64], i: usize, d: f64) -> Pos {
    if path.is_empty() {
        return Pos::new(0.0, 0.0);
    }
    if i == 0 {
        return path[0];
    }
    if i >= path.len() {
        return path[path.len() - 1];
    }
    let p0 = path[i - 1];
    let p1 = path[i];
    let d0 = lengths[i - 1];
    let d1 = lengths[i];
    let gap = d0 - d1;
    let gap = if gap < 0.0 { -gap } else { gap };
    if gap <= f64::EPSILON {
        // degenerate segment: avoid dividing by (almost) zero
        return p0;
    }
    let w = ((d - d0) / (d1 - d0)) as f32;
    Pos::new(p0.x + (p1.x - p0.x) * w, p0.y + (p1.y - p0.y) * w)
}
