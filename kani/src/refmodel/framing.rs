//! Reference line classifier for the file framing rules (property C05), from the statement.

pub const SECTION_NAMES: [&str; 11] = [
    "General",
    "Editor",
    "Metadata",
    "Difficulty",
    "Events",
    "TimingPoints",
    "Colours",
    "HitObjects",
    "Variables",
    "CatchTheBeat",
    "Mania",
];

pub const VERSION_PREFIX: &[u8] = b"osu file format v";

/// ASCII whitespace as `char::is_whitespace` sees it (the non-ASCII white space characters are
/// handled by `is_unicode_ws_at`).
pub fn is_ascii_ws(b: u8) -> bool {
    b == b' ' || (b >= 0x09 && b <= 0x0D)
}

/// A line is skipped iff it is empty or its first non-whitespace text is `//` (ASCII lines).
pub fn skip_ascii(line: &[u8]) -> bool {
    if line.is_empty() {
        return true;
    }
    let mut i = 0;
    while i < line.len() && is_ascii_ws(line[i]) {
        i += 1;
    }
    i + 1 < line.len() && line[i] == b'/' && line[i + 1] == b'/'
}

/// Index of the section named by the line, iff the line is exactly `[Name]`.
pub fn section_of(line: &[u8]) -> Option<usize> {
    if line.len() < 2 || line[0] != b'[' || line[line.len() - 1] != b']' {
        return None;
    }
    let inner = &line[1..line.len() - 1];
    let mut k = 0;
    while k < SECTION_NAMES.len() {
        let name = SECTION_NAMES[k].as_bytes();
        if name.len() == inner.len() {
            let mut same = true;
            let mut i = 0;
            while i < name.len() {
                if name[i] != inner[i] {
                    same = false;
                }
                i += 1;
            }
            if same {
                return Some(k);
            }
        }
        k += 1;
    }
    None
}

#[derive(Copy, Clone, Debug, PartialEq, Eq)]
pub enum VersionLine {
    /// empty line: keep looking
    Blank,
    /// a version line with a valid number
    Version(i32),
    /// carries the prefix but the number is bad: latest version assumed, line may open a section
    BadNumber,
    /// anything else: latest version assumed, line may open a section
    NotAVersionLine,
}

/// Decimal i32 as `str::parse::<i32>` accepts it after trimming ASCII whitespace: optional sign,
/// at least one digit, no overflow; then the +-(2^31-1) limit of the format.
pub fn parse_i32(text: &[u8]) -> Option<i32> {
    let mut a = 0;
    let mut b = text.len();
    while a < b && is_ascii_ws(text[a]) {
        a += 1;
    }
    while b > a && is_ascii_ws(text[b - 1]) {
        b -= 1;
    }
    if a == b {
        return None;
    }
    let mut neg = false;
    if text[a] == b'-' || text[a] == b'+' {
        neg = text[a] == b'-';
        a += 1;
    }
    if a == b {
        return None;
    }
    let mut v: i64 = 0;
    while a < b {
        let c = text[a];
        if c < b'0' || c > b'9' {
            return None;
        }
        v = v * 10 + (c - b'0') as i64;
        if v > 1 << 40 {
            return None;
        }
        a += 1;
    }
    let v = if neg { -v } else { v };
    if v < -(i32::MAX as i64) || v > i32::MAX as i64 {
        None
    } else {
        Some(v as i32)
    }
}

pub fn version_of(line: &[u8]) -> VersionLine {
    let p = VERSION_PREFIX;
    let mut has_prefix = line.len() >= p.len();
    let mut i = 0;
    while has_prefix && i < p.len() {
        if line[i] != p[i] {
            has_prefix = false;
        }
        i += 1;
    }
    if !has_prefix {
        return if line.is_empty() { VersionLine::Blank } else { VersionLine::NotAVersionLine };
    }
    // the number is what follows the LAST `v` of the line
    let mut last_v = p.len() - 1;
    let mut i = p.len();
    while i < line.len() {
        if line[i] == b'v' {
            last_v = i;
        }
        i += 1;
    }
    match parse_i32(&line[last_v + 1..]) {
        Some(v) => VersionLine::Version(v),
        None => VersionLine::BadNumber,
    }
}
