//! Independent reference models (oracles), written from the property statements and the legacy
//! (osu!lazer / osu-stable) rules they describe -- not from rosu-map's code. Plain Rust, usable
//! both under Kani and in native replays.

pub mod control_points;
pub mod utf8;
pub mod curve;
pub mod framing;
pub mod numbers;
pub mod timing;
