//! The format's numeric acceptance rule (property C11): a number must parse and lie within
//! +-(2^31 - 1) in the field's own type (for f32 that bound rounds to 2^31, as in osu!lazer);
//! NaN is rejected. `None` input = the text did not parse.

pub fn accept_f64(v: Option<f64>) -> Option<f64> {
    let v = v?;
    let limit = 2147483647.0f64;
    if v.is_nan() || v < -limit || v > limit {
        None
    } else {
        Some(v)
    }
}

pub fn accept_f32(v: Option<f32>) -> Option<f32> {
    let v = v?;
    let limit = 2147483648.0f32; // i32::MAX as f32
    if v.is_nan() || v < -limit || v > limit {
        None
    } else {
        Some(v)
    }
}

pub fn accept_i32(v: Option<i32>) -> Option<i32> {
    let v = v?;
    if v == i32::MIN {
        None
    } else {
        Some(v)
    }
}

/// Acceptance with an explicit coordinate-style limit (hit objects: 131072).
pub fn accept_f64_limit(v: Option<f64>, limit: f64) -> Option<f64> {
    let v = v?;
    if v.is_nan() || v < -limit || v > limit {
        None
    } else {
        Some(v)
    }
}

pub fn accept_f32_limit(v: Option<f32>, limit: f32) -> Option<f32> {
    let v = v?;
    if v.is_nan() || v < -limit || v > limit {
        None
    } else {
        Some(v)
    }
}

pub fn clamp64(v: f64, lo: f64, hi: f64) -> f64 {
    if v < lo {
        lo
    } else if v > hi {
        hi
    } else {
        v
    }
}
