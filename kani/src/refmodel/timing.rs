//! Reference model of the legacy timing-point semantics (property C12), written from the
//! statement: lines sharing a time form a group; per kind of point the last inherited line wins
//! over timing-change lines and the first timing-change line wins among those; redundant points
//! are dropped; a point at an existing time replaces it; clamps; NaN only on inherited lines.

use rosu_map::section::general::GameMode;
use rosu_map::section::hit_objects::hit_samples::SampleBank;
use rosu_map::section::timing_points::{
    DifficultyPoint, EffectPoint, SamplePoint, TimeSignature, TimingPoint,
};

use super::control_points::{expected_add, AddOutcome, KDifficulty, KEffect, KSample, KTiming, Kind};
use super::numbers::{accept_f64, accept_i32, clamp64};

/// The numeric fields of one timing-point line as the number oracle interpreted them
/// (`None` = the text did not parse). `present` = how many comma-separated fields the line has.
#[derive(Copy, Clone)]
pub struct LineVals {
    pub time: f64,
    pub beat_len: Option<f64>,
    pub present: usize,
    /// field 3: time signature; `sig_is_zero_text` = the text starts with '0' (keeps 4/4)
    pub sig: Option<i32>,
    pub sig_is_zero_text: bool,
    pub sample_set: Option<i32>,
    pub custom_bank: Option<i32>,
    pub volume: Option<i32>,
    /// field 7: timing change iff the text starts with '1'; absent = true
    pub timing_change: bool,
    pub flags: Option<i32>,
}

#[derive(Clone)]
pub struct Points {
    pub timing: Option<TimingPoint>,
    pub difficulty: DifficultyPoint,
    pub effect: EffectPoint,
    pub sample: SamplePoint,
    pub timing_change: bool,
    pub time: f64,
}

fn bank_from_i32(v: i32, default: SampleBank) -> SampleBank {
    match v {
        0 => SampleBank::None,
        1 => SampleBank::Normal,
        2 => SampleBank::Soft,
        3 => SampleBank::Drum,
        _ => default,
    }
}

/// What one line contributes, or `None` if the line is rejected.
pub fn line_points(l: &LineVals, mode: GameMode, default_bank: SampleBank, default_volume: i32) -> Option<Points> {
    let time = l.time;
    let b = l.beat_len?;
    // beat length: +-(2^31-1), but NaN passes this test
    if b < -2147483647.0 || b > 2147483647.0 {
        return None;
    }
    let speed = if b < 0.0 { 100.0 / -b } else { 1.0 };
    let mut numerator = 4;
    if l.present >= 3 && !l.sig_is_zero_text {
        let n = accept_i32(l.sig)?;
        if n <= 0 {
            return None;
        }
        numerator = n;
    }
    let mut bank = default_bank;
    if l.present >= 4 {
        bank = bank_from_i32(accept_i32(l.sample_set)?, default_bank);
    }
    let custom = if l.present >= 5 { accept_i32(l.custom_bank)? } else { 0 };
    let volume = if l.present >= 6 { accept_i32(l.volume)? } else { default_volume };
    let timing_change = if l.present >= 7 { l.timing_change } else { true };
    let mut kiai = false;
    let mut omit = false;
    if l.present >= 8 {
        let f = l.flags?;
        kiai = f & 1 != 0;
        omit = f & 8 != 0;
    }
    if matches!(bank, SampleBank::None) {
        bank = SampleBank::Normal;
    }
    if timing_change && b.is_nan() {
        return None;
    }
    let timing = if timing_change {
        Some(TimingPoint {
            time,
            beat_len: clamp64(b, 6.0, 60000.0),
            omit_first_bar_line: omit,
            time_signature: TimeSignature::new(numerator).ok()?,
        })
    } else {
        None
    };
    let sv = if speed.is_nan() { speed } else { clamp64(speed, 0.1, 10.0) };
    let difficulty = DifficultyPoint { time, slider_velocity: sv, generate_ticks: !b.is_nan() };
    let vol = if volume < 0 {
        0
    } else if volume > 100 {
        100
    } else {
        volume
    };
    let sample = SamplePoint { time, sample_bank: bank, sample_volume: vol, custom_sample_bank: custom };
    let scroll = if matches!(mode, GameMode::Taiko | GameMode::Mania) {
        if speed.is_nan() { speed } else { clamp64(speed, 0.01, 10.0) }
    } else {
        1.0
    };
    let effect = EffectPoint { time, kiai, scroll_speed: scroll };
    Some(Points { timing, difficulty, effect, sample, timing_change, time })
}

/// A small fixed-capacity sorted list with the legacy add rule.
pub struct RefList<K: Kind> {
    pub items: [Option<K::P>; 4],
    pub len: usize,
}

impl<K: Kind> RefList<K> {
    pub fn new() -> Self {
        Self { items: [None, None, None, None], len: 0 }
    }

    pub fn add(&mut self, p: K::P) {
        let mut pre: [Option<K::P>; 4] = [None, None, None, None];
        let mut times = [0.0f64; 4];
        let mut i = 0;
        while i < self.len {
            pre[i] = self.items[i].clone();
            times[i] = K::time(self.items[i].as_ref().unwrap());
            i += 1;
        }
        // expected_add works on slices of points
        let mut flat: [Option<&K::P>; 4] = [None, None, None, None];
        let mut i = 0;
        while i < self.len {
            flat[i] = pre[i].as_ref();
            i += 1;
        }
        let outcome = expected_add_opt::<K>(&flat, &times[..self.len], &p);
        match outcome {
            AddOutcome::Dropped => {}
            AddOutcome::Replaced(k) => self.items[k] = Some(p),
            AddOutcome::Inserted(k) => {
                let mut i = self.len;
                while i > k {
                    self.items[i] = self.items[i - 1].take();
                    i -= 1;
                }
                self.items[k] = Some(p);
                self.len += 1;
            }
        }
    }
}

fn expected_add_opt<K: Kind>(pre: &[Option<&K::P>; 4], times: &[f64], p: &K::P) -> AddOutcome {
    use super::control_points::{active_idx, count_before};
    let t = K::time(p);
    let redundant = match active_idx(times, t) {
        Some(i) => K::repeats(p, pre[i].unwrap()),
        None => K::repeats_default(p),
    };
    if redundant {
        return AddOutcome::Dropped;
    }
    let k = count_before(times, t);
    if k < times.len() && times[k] == t {
        AddOutcome::Replaced(k)
    } else {
        AddOutcome::Inserted(k)
    }
}

/// The legacy model: pending group + the four lists.
pub struct RefTiming {
    pub pending_time: f64,
    pub pend_t: Option<TimingPoint>,
    pub pend_d: Option<DifficultyPoint>,
    pub pend_e: Option<EffectPoint>,
    pub pend_s: Option<SamplePoint>,
    pub timing: RefList<KTiming>,
    pub difficulty: RefList<KDifficulty>,
    pub effect: RefList<KEffect>,
    pub sample: RefList<KSample>,
}

impl RefTiming {
    pub fn new() -> Self {
        Self {
            pending_time: 0.0,
            pend_t: None,
            pend_d: None,
            pend_e: None,
            pend_s: None,
            timing: RefList::new(),
            difficulty: RefList::new(),
            effect: RefList::new(),
            sample: RefList::new(),
        }
    }

    pub fn flush(&mut self) {
        if let Some(p) = self.pend_t.take() {
            self.timing.add(p);
        }
        if let Some(p) = self.pend_d.take() {
            self.difficulty.add(p);
        }
        if let Some(p) = self.pend_e.take() {
            self.effect.add(p);
        }
        if let Some(p) = self.pend_s.take() {
            self.sample.add(p);
        }
    }

    /// Apply an accepted line.
    pub fn line(&mut self, pts: Points) {
        let d = pts.time - self.pending_time;
        let d = if d < 0.0 { -d } else { d };
        if d >= f64::EPSILON {
            // a new time: the previous group is complete
            self.flush();
        }
        if pts.timing_change {
            // among timing-change lines of a group the FIRST wins, and they never override an
            // inherited line's points
            if self.pend_t.is_none() {
                self.pend_t = pts.timing;
            }
            if self.pend_d.is_none() {
                self.pend_d = Some(pts.difficulty);
            }
            if self.pend_s.is_none() {
                self.pend_s = Some(pts.sample);
            }
            if self.pend_e.is_none() {
                self.pend_e = Some(pts.effect);
            }
        } else {
            // the LAST inherited line of a group wins
            self.pend_d = Some(pts.difficulty);
            self.pend_s = Some(pts.sample);
            self.pend_e = Some(pts.effect);
        }
        self.pending_time = pts.time;
    }
}

pub fn list_matches<K: Kind>(real: &[K::P], reference: &RefList<K>) -> bool {
    if real.len() != reference.len {
        return false;
    }
    let mut i = 0;
    while i < real.len() {
        if !K::same(&real[i], reference.items[i].as_ref().unwrap()) {
            return false;
        }
        i += 1;
    }
    true
}
