//! Reference UTF-8 validator / lossy decoder written from the Unicode standard (table 3-7,
//! "maximal subpart" replacement -- the behaviour of `String::from_utf8_lossy`), and the UTF-16
//! decoder semantics of `char::decode_utf16` with U+FFFD replacement.

/// Length of the well-formed sequence starting at `b[i]`, or `Err(n)` with the number of bytes
/// forming the maximal ill-formed subpart (always >= 1).
pub fn seq_at(b: &[u8], i: usize) -> Result<usize, usize> {
    let b0 = b[i];
    let get = |k: usize| -> Option<u8> {
        if i + k < b.len() {
            Some(b[i + k])
        } else {
            None
        }
    };
    let cont = |x: Option<u8>, lo: u8, hi: u8| -> bool {
        match x {
            Some(v) => v >= lo && v <= hi,
            None => false,
        }
    };
    if b0 < 0x80 {
        return Ok(1);
    }
    if b0 >= 0xC2 && b0 <= 0xDF {
        return if cont(get(1), 0x80, 0xBF) { Ok(2) } else { Err(1) };
    }
    if b0 >= 0xE0 && b0 <= 0xEF {
        let (lo, hi) = match b0 {
            0xE0 => (0xA0, 0xBF),
            0xED => (0x80, 0x9F),
            _ => (0x80, 0xBF),
        };
        if !cont(get(1), lo, hi) {
            return Err(1);
        }
        if !cont(get(2), 0x80, 0xBF) {
            return Err(2);
        }
        return Ok(3);
    }
    if b0 >= 0xF0 && b0 <= 0xF4 {
        let (lo, hi) = match b0 {
            0xF0 => (0x90, 0xBF),
            0xF4 => (0x80, 0x8F),
            _ => (0x80, 0xBF),
        };
        if !cont(get(1), lo, hi) {
            return Err(1);
        }
        if !cont(get(2), 0x80, 0xBF) {
            return Err(2);
        }
        if !cont(get(3), 0x80, 0xBF) {
            return Err(3);
        }
        return Ok(4);
    }
    Err(1)
}

pub fn is_valid_utf8(b: &[u8]) -> bool {
    let mut i = 0;
    while i < b.len() {
        match seq_at(b, i) {
            Ok(n) => i += n,
            Err(_) => return false,
        }
    }
    true
}

/// Lossy decode into a fixed buffer; returns the number of bytes written. `OUT` must be at least
/// `3 * b.len()`.
pub fn lossy<const OUT: usize>(b: &[u8], out: &mut [u8; OUT]) -> usize {
    let mut i = 0;
    let mut o = 0;
    while i < b.len() {
        match seq_at(b, i) {
            Ok(n) => {
                let mut k = 0;
                while k < n {
                    out[o] = b[i + k];
                    o += 1;
                    k += 1;
                }
                i += n;
            }
            Err(n) => {
                out[o] = 0xEF;
                out[o + 1] = 0xBF;
                out[o + 2] = 0xBD;
                o += 3;
                i += n;
            }
        }
    }
    o
}

/// Encode a scalar value as UTF-8 into `out[o..]`, returning the new offset.
pub fn push_scalar(c: u32, out: &mut [u8], o: usize) -> usize {
    if c < 0x80 {
        out[o] = c as u8;
        o + 1
    } else if c < 0x800 {
        out[o] = 0xC0 | (c >> 6) as u8;
        out[o + 1] = 0x80 | (c & 0x3F) as u8;
        o + 2
    } else if c < 0x10000 {
        out[o] = 0xE0 | (c >> 12) as u8;
        out[o + 1] = 0x80 | ((c >> 6) & 0x3F) as u8;
        out[o + 2] = 0x80 | (c & 0x3F) as u8;
        o + 3
    } else {
        out[o] = 0xF0 | (c >> 18) as u8;
        out[o + 1] = 0x80 | ((c >> 12) & 0x3F) as u8;
        out[o + 2] = 0x80 | ((c >> 6) & 0x3F) as u8;
        out[o + 3] = 0x80 | (c & 0x3F) as u8;
        o + 4
    }
}

/// Reference UTF-16 decoding (`units` already in native order) to UTF-8 with each unpaired
/// surrogate replaced by U+FFFD. Returns the number of bytes written.
pub fn utf16_to_utf8<const OUT: usize>(units: &[u16], out: &mut [u8; OUT]) -> usize {
    let mut i = 0;
    let mut o = 0;
    while i < units.len() {
        let u = units[i] as u32;
        if u < 0xD800 || u > 0xDFFF {
            o = push_scalar(u, out, o);
            i += 1;
        } else if u <= 0xDBFF && i + 1 < units.len() && {
            let l = units[i + 1] as u32;
            l >= 0xDC00 && l <= 0xDFFF
        } {
            let l = units[i + 1] as u32;
            let c = 0x10000 + ((u - 0xD800) << 10) + (l - 0xDC00);
            o = push_scalar(c, out, o);
            i += 2;
        } else {
            o = push_scalar(0xFFFD, out, o);
            i += 1;
        }
    }
    o
}
