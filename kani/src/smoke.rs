//! Trivial harness used by setup.sh to warm the build.
#[kani::proof]
fn smoke_true() {
    let x: u8 = kani::any();
    assert!(x as u16 <= 255);
}
