//! Standard-library stubs (DESIGN.md §3.1). Only `std` functions are ever stubbed, never
//! rosu-map's. Each stub is validated natively against the real function by
//! `tests/model_validation.rs` (the `*_model` functions live in util.rs so that they also compile natively).

use core::num::{ParseFloatError, ParseIntError};

pub use crate::util::{memchr_model, memrchr_model};

// ------------------------------------------------------------------------------------------
// Number oracle: `str::parse::<T>()` returns `Err` or an arbitrary `T`, consistently per token.
//
// The trimmed token text selects a slot: tokens are single ASCII characters `a`..`z` / `A`..`Z`
// (placeholders) or concrete digits strings that are interpreted concretely by a tiny decimal
// reader (so that concrete numbers such as `0`, `10`, `-5` keep their meaning).
// ------------------------------------------------------------------------------------------

pub const SLOTS: usize = 26;

#[derive(Copy, Clone)]
pub struct Slot<T: Copy> {
    pub init: bool,
    pub ok: bool,
    pub val: T,
}

pub struct Oracle {
    pub f64s: [Slot<f64>; SLOTS],
    pub f32s: [Slot<f32>; SLOTS],
    pub i32s: [Slot<i32>; SLOTS],
    pub u8s: [Slot<u8>; SLOTS],
}

const fn empty<T: Copy>(v: T) -> Slot<T> {
    Slot {
        init: false,
        ok: false,
        val: v,
    }
}

pub static mut ORACLE: Oracle = Oracle {
    f64s: [empty(0.0); SLOTS],
    f32s: [empty(0.0); SLOTS],
    i32s: [empty(0); SLOTS],
    u8s: [empty(0); SLOTS],
};

/// Placeholder tokens: `$` followed by one ASCII lower-case letter (`$a` .. `$z`).
fn slot_of(s: &str) -> Option<usize> {
    let b = s.as_bytes();
    if b.len() == 2 && b[0] == b'$' && b[1] >= b'a' && b[1] <= b'z' {
        Some((b[1] - b'a') as usize)
    } else {
        None
    }
}

/// Tiny concrete reader for `-?[0-9]+` (no fraction, no exponent): enough for the concrete tokens
/// used in templates. Anything else is "not a number".
fn concrete_int(s: &str) -> Option<i64> {
    let b = s.as_bytes();
    if b.is_empty() {
        return None;
    }
    let (neg, start) = if b[0] == b'-' { (true, 1) } else { (false, 0) };
    if start >= b.len() || b.len() - start > 9 {
        return None;
    }
    let mut v: i64 = 0;
    let mut i = start;
    while i < b.len() {
        if b[i] < b'0' || b[i] > b'9' {
            return None;
        }
        v = v * 10 + (b[i] - b'0') as i64;
        i += 1;
    }
    Some(if neg { -v } else { v })
}

fn float_err() -> ParseFloatError {
    // ParseFloatError { kind: FloatErrorKind } -- a field-less enum with discriminant 0 = Empty.
    unsafe { core::mem::transmute::<u8, ParseFloatError>(0) }
}

fn int_err() -> ParseIntError {
    // ParseIntError { kind: IntErrorKind } -- discriminant 0 = Empty.
    unsafe { core::mem::transmute::<u8, ParseIntError>(0) }
}

pub fn f64_from_str(s: &str) -> Result<f64, ParseFloatError> {
    if let Some(i) = slot_of(s) {
        let slot = unsafe { &mut ORACLE.f64s[i] };
        assert!(slot.init, "oracle token parsed but never seeded by the harness");
        return if slot.ok { Ok(slot.val) } else { Err(float_err()) };
    }
    match concrete_int(s) {
        Some(v) => Ok(v as f64),
        None => {
            // "-0" is read as an integer 0 above; give it its float meaning here.
            Err(float_err())
        }
    }
}

pub fn f32_from_str(s: &str) -> Result<f32, ParseFloatError> {
    if let Some(i) = slot_of(s) {
        let slot = unsafe { &mut ORACLE.f32s[i] };
        assert!(slot.init, "oracle token parsed but never seeded by the harness");
        return if slot.ok { Ok(slot.val) } else { Err(float_err()) };
    }
    match concrete_int(s) {
        Some(v) => Ok(v as f32),
        None => Err(float_err()),
    }
}

pub fn i32_from_str(s: &str) -> Result<i32, ParseIntError> {
    if let Some(i) = slot_of(s) {
        let slot = unsafe { &mut ORACLE.i32s[i] };
        assert!(slot.init, "oracle token parsed but never seeded by the harness");
        return if slot.ok { Ok(slot.val) } else { Err(int_err()) };
    }
    match concrete_int(s) {
        Some(v) => Ok(v as i32),
        None => Err(int_err()),
    }
}

pub fn u8_from_str(s: &str) -> Result<u8, ParseIntError> {
    if let Some(i) = slot_of(s) {
        let slot = unsafe { &mut ORACLE.u8s[i] };
        assert!(slot.init, "oracle token parsed but never seeded by the harness");
        return if slot.ok { Ok(slot.val) } else { Err(int_err()) };
    }
    match concrete_int(s) {
        Some(v) if v >= 0 && v <= 255 => Ok(v as u8),
        _ => Err(int_err()),
    }
}

/// What the oracle answered for a placeholder token (None = parse error / token never parsed).
pub fn tok_f64(c: u8) -> Option<f64> {
    let s = unsafe { &ORACLE.f64s[(c - b'a') as usize] };
    if s.init && s.ok {
        Some(s.val)
    } else {
        None
    }
}
pub fn tok_f32(c: u8) -> Option<f32> {
    let s = unsafe { &ORACLE.f32s[(c - b'a') as usize] };
    if s.init && s.ok {
        Some(s.val)
    } else {
        None
    }
}
pub fn tok_i32(c: u8) -> Option<i32> {
    let s = unsafe { &ORACLE.i32s[(c - b'a') as usize] };
    if s.init && s.ok {
        Some(s.val)
    } else {
        None
    }
}
pub fn tok_u8(c: u8) -> Option<u8> {
    let s = unsafe { &ORACLE.u8s[(c - b'a') as usize] };
    if s.init && s.ok {
        Some(s.val)
    } else {
        None
    }
}

/// Pre-seed the oracle so the harness knows the interpretation before the parser runs.
pub fn seed_f64(c: u8) -> Option<f64> {
    let slot = unsafe { &mut ORACLE.f64s[(c - b'a') as usize] };
    slot.init = true;
    slot.ok = kani::any();
    slot.val = kani::any();
    if slot.ok {
        Some(slot.val)
    } else {
        None
    }
}
pub fn seed_f32(c: u8) -> Option<f32> {
    let slot = unsafe { &mut ORACLE.f32s[(c - b'a') as usize] };
    slot.init = true;
    slot.ok = kani::any();
    slot.val = kani::any();
    if slot.ok {
        Some(slot.val)
    } else {
        None
    }
}
pub fn seed_i32(c: u8) -> Option<i32> {
    let slot = unsafe { &mut ORACLE.i32s[(c - b'a') as usize] };
    slot.init = true;
    slot.ok = kani::any();
    slot.val = kani::any();
    if slot.ok {
        Some(slot.val)
    } else {
        None
    }
}
pub fn seed_u8(c: u8) -> Option<u8> {
    let slot = unsafe { &mut ORACLE.u8s[(c - b'a') as usize] };
    slot.init = true;
    slot.ok = kani::any();
    slot.val = kani::any();
    if slot.ok {
        Some(slot.val)
    } else {
        None
    }
}

/// Model of `core::str::from_utf8` used where the bytes are concrete / assumed ASCII: the real
/// validator's word-at-a-time fast path is keyed on pointer alignment, which is non-deterministic
/// in CBMC. This model is the plain RFC 3629 validator and returns the same `Ok`; the error value
/// cannot be constructed outside std, so the stub is only applied in harnesses whose input is
/// valid UTF-8 (asserted by `assume`), where the `Err` arm is unreachable.
pub fn from_utf8_valid_only(v: &[u8]) -> Result<&str, core::str::Utf8Error> {
    kani::assume(crate::refmodel::utf8::is_valid_utf8(v));
    Ok(unsafe { core::str::from_utf8_unchecked(v) })
}

/// Template text -> the text the parser is run on. Under the solver this is the template itself
/// (the number stubs interpret the `$x` tokens). In a native replay (`--cfg verif_playback`, no
/// stubs) every `$x` is replaced by the decimal text of the value the solver chose (or by text
/// that does not parse when the oracle said "parse error"), so the real `str::parse` is exercised.
#[cfg(not(verif_playback))]
pub fn tok_line(template: &'static str) -> &'static str {
    template
}

#[cfg(verif_playback)]
pub fn tok_line(template: &'static str) -> &'static str {
    let b = template.as_bytes();
    let mut out = String::new();
    let mut i = 0;
    while i < b.len() {
        if b[i] == b'$' && i + 1 < b.len() && b[i + 1] >= b'a' && b[i + 1] <= b'z' {
            let k = (b[i + 1] - b'a') as usize;
            let o = unsafe { &*core::ptr::addr_of!(ORACLE) };
            let text = if o.f64s[k].init {
                if o.f64s[k].ok { format!("{:?}", o.f64s[k].val) } else { "!".to_string() }
            } else if o.f32s[k].init {
                if o.f32s[k].ok { format!("{:?}", o.f32s[k].val) } else { "!".to_string() }
            } else if o.i32s[k].init {
                if o.i32s[k].ok { format!("{}", o.i32s[k].val) } else { "!".to_string() }
            } else if o.u8s[k].init {
                if o.u8s[k].ok { format!("{}", o.u8s[k].val) } else { "!".to_string() }
            } else {
                format!("${}", b[i + 1] as char)
            };
            out.push_str(&text);
            i += 2;
        } else {
            out.push(b[i] as char);
            i += 1;
        }
    }
    Box::leak(out.into_boxed_str())
}
