//! Small helpers shared by harnesses and native replays.

/// Bitwise equality of floats (NaN == NaN, 0.0 != -0.0).
#[inline]
pub fn f64_bits_eq(a: f64, b: f64) -> bool {
    a.to_bits() == b.to_bits()
}

#[inline]
pub fn f32_bits_eq(a: f32, b: f32) -> bool {
    a.to_bits() == b.to_bits()
}

/// A time that is neither NaN nor negative zero (negative zero is known finding D8).
#[cfg(kani)]
pub fn any_time_no_negzero() -> f64 {
    let t: f64 = kani::any();
    kani::assume(!t.is_nan());
    kani::assume(!(t == 0.0 && t.is_sign_negative()));
    t
}

/// A time that is not NaN (negative zero allowed).
#[cfg(kani)]
pub fn any_time() -> f64 {
    let t: f64 = kani::any();
    kani::assume(!t.is_nan());
    t
}

/// Model of `core::slice::memchr::memchr`: index of the first `x` in `text`.
pub fn memchr_model(x: u8, text: &[u8]) -> Option<usize> {
    let mut i = 0;
    while i < text.len() {
        if text[i] == x {
            return Some(i);
        }
        i += 1;
    }
    None
}

/// Model of `core::slice::memchr::memrchr`: index of the last `x` in `text`.
pub fn memrchr_model(x: u8, text: &[u8]) -> Option<usize> {
    let mut i = text.len();
    while i > 0 {
        i -= 1;
        if text[i] == x {
            return Some(i);
        }
    }
    None
}

