//! Native validation of the std stubs and of the reference models against the real standard
//! library (run by setup.sh: `cargo test --offline` in /verif/kani). A failure here means an
//! oracle or stub is wrong, i.e. no verdict of the harnesses can be trusted.

use rosu_map_verif::refmodel::{framing, utf8};
use rosu_map_verif::util::{memchr_model, memrchr_model};

#[test]
fn memchr_models_agree_with_std_on_all_short_inputs() {
    // all byte strings over a 3-letter alphabet up to length 6, every needle
    let alphabet = [b'a', b':', b'/'];
    for len in 0..=6usize {
        let total = 3usize.pow(len as u32);
        for code in 0..total {
            let mut v = Vec::with_capacity(len);
            let mut c = code;
            for _ in 0..len {
                v.push(alphabet[c % 3]);
                c /= 3;
            }
            for &needle in &alphabet {
                assert_eq!(memchr_model(needle, &v), v.iter().position(|&b| b == needle));
                assert_eq!(memrchr_model(needle, &v), v.iter().rposition(|&b| b == needle));
            }
        }
    }
}

#[test]
fn utf8_lossy_model_agrees_with_std_on_all_inputs_up_to_3_bytes_and_sampled_4() {
    let check = |bytes: &[u8]| {
        let mut out = [0u8; 16];
        let n = utf8::lossy::<16>(bytes, &mut out);
        assert_eq!(&out[..n], String::from_utf8_lossy(bytes).as_bytes(), "input {bytes:02x?}");
        assert_eq!(utf8::is_valid_utf8(bytes), std::str::from_utf8(bytes).is_ok());
    };
    for a in 0..=255u8 {
        check(&[a]);
        for b in 0..=255u8 {
            check(&[a, b]);
        }
    }
    // 3 bytes: every lead byte x interesting continuation bytes
    let interesting = [0x00, 0x7F, 0x80, 0x8F, 0x90, 0x9F, 0xA0, 0xBF, 0xC0, 0xC2, 0xE0, 0xED, 0xF0, 0xF4, 0xF5, 0xFF];
    for a in 0..=255u8 {
        for &b in &interesting {
            for &c in &interesting {
                check(&[a, b, c]);
                for &d in &interesting {
                    check(&[a, b, c, d]);
                }
            }
        }
    }
}

#[test]
fn utf16_model_agrees_with_std() {
    let interesting: Vec<u16> = vec![0x0000, 0x0041, 0x007F, 0x0080, 0x07FF, 0x0800, 0x4E0A, 0xD7FF, 0xD800, 0xDBFF, 0xDC00, 0xDFFF, 0xE000, 0xFFFD, 0xFFFF];
    let check = |units: &[u16]| {
        let mut out = [0u8; 16];
        let n = utf8::utf16_to_utf8::<16>(units, &mut out);
        let want: String = char::decode_utf16(units.iter().copied()).map(|r| r.unwrap_or(char::REPLACEMENT_CHARACTER)).collect();
        assert_eq!(&out[..n], want.as_bytes(), "units {units:04x?}");
    };
    for u in 0..=0xFFFFu16 {
        check(&[u]);
    }
    for &a in &interesting {
        for &b in &interesting {
            check(&[a, b]);
            for &c in &interesting {
                check(&[a, b, c]);
            }
        }
    }
}

#[test]
fn framing_reference_agrees_with_the_crate_on_its_own_test_lines() {
    // sanity: the reference classifier on the lines the crate's unit tests use
    assert_eq!(framing::section_of(b"[General]"), Some(0));
    assert_eq!(framing::section_of(b"[HitObjects]"), Some(7));
    assert_eq!(framing::section_of(b"General"), None);
    assert_eq!(framing::section_of(b"[General"), None);
    assert_eq!(framing::section_of(b"HitObject"), None);
    assert_eq!(framing::version_of(b"osu file format v42"), framing::VersionLine::Version(42));
    assert_eq!(framing::version_of(b"osu file format v42 // comment"), framing::VersionLine::BadNumber);
    assert_eq!(framing::version_of(b"file format v42 // comment"), framing::VersionLine::NotAVersionLine);
    assert_eq!(framing::version_of(b""), framing::VersionLine::Blank);
    assert!(framing::skip_ascii(b"  // c"));
    assert!(!framing::skip_ascii(b" /x"));
    for (text, want) in [("12", Some(12)), ("-5", Some(-5)), ("+7", Some(7)), (" 9 ", Some(9)), ("", None), ("1e3", None), ("2147483647", Some(i32::MAX)), ("-2147483648", None), ("99999999999", None)] {
        assert_eq!(framing::parse_i32(text.as_bytes()), want, "{text:?}");
    }
}

#[test]
fn numeric_acceptance_reference_agrees_with_the_crate_on_boundary_values() {
    use rosu_map::util::ParseNumber;
    use rosu_map_verif::refmodel::numbers::*;
    let f64s = [0.0, -0.0, 1.5, 2147483647.0, 2147483647.5, 2147483648.0, -2147483647.0, -2147483648.0, 1e300, f64::INFINITY, f64::NEG_INFINITY, f64::NAN, f64::MIN_POSITIVE];
    for v in f64s {
        let text = format!("{v:?}");
        assert_eq!(accept_f64(Some(v)).map(f64::to_bits), <f64 as ParseNumber>::parse(&text).ok().map(f64::to_bits), "{text}");
    }
    let f32s = [0.0f32, 2147483648.0, 2147483904.0, -2147483648.0, -2147483904.0, f32::INFINITY, f32::NAN, 3.4e38];
    for v in f32s {
        let text = format!("{v:?}");
        assert_eq!(accept_f32(Some(v)).map(f32::to_bits), <f32 as ParseNumber>::parse(&text).ok().map(f32::to_bits), "{text}");
    }
    for v in [0, 1, -1, i32::MAX, i32::MIN, i32::MIN + 1] {
        let text = format!("{v}");
        assert_eq!(accept_i32(Some(v)), <i32 as ParseNumber>::parse(&text).ok(), "{text}");
    }
    assert_eq!(accept_f64(None), None);
    assert!(<f64 as ParseNumber>::parse("abc").is_err());
}
