#!/usr/bin/env bash
# Runs every claimed check once (tier from $1, default quick) and prints one line per property.
cd "$(dirname "$0")"
tier="${1:-quick}"
for p in $(python3 -c "import json;print(' '.join(c['property_id'] for c in json.load(open('MANIFEST.json'))['checks']))"); do
  s=$(date +%s)
  ./check "$p" --tier "$tier" > ".work/run_all_${p}_${tier}.log" 2>&1
  rc=$?
  echo "$p tier=$tier exit=$rc wall=$(( $(date +%s) - s ))s $(grep -c '^VIOLATION' .work/run_all_${p}_${tier}.log) violations $(grep -c '^INCONCLUSIVE' .work/run_all_${p}_${tier}.log) inconclusive"
done
