#!/usr/bin/env python3
"""Confirm a seeded change and run the checks against it.

  ./seedtest.py import <src_dir> <seed_id> <property> "<needs>"   # copy patch.diff/demo.rs/notes.md into seeded/<seed_id>/
  ./seedtest.py confirm <seed_id>            # scratch worktree: tests pass with the change, demo fails with / passes without
  ./seedtest.py check <seed_id> [--tier T] [--only h1,h2]   # apply to /repo, run ./check, undo
"""
import json
import os
import re
import shutil
import subprocess
import sys
import time

ROOT = os.path.dirname(os.path.abspath(__file__))
SEEDED = os.path.join(ROOT, "seeded")


def sh(cmd, cwd=None, timeout=3600):
    p = subprocess.run(cmd, shell=True, cwd=cwd, capture_output=True, text=True, timeout=timeout)
    return p.returncode, p.stdout + p.stderr


def load(seed):
    p = os.path.join(SEEDED, seed, "meta.json")
    return json.load(open(p)) if os.path.exists(p) else {}


def save(seed, meta):
    json.dump(meta, open(os.path.join(SEEDED, seed, "meta.json"), "w"), indent=1)


def cmd_import(src, seed, prop, needs):
    d = os.path.join(SEEDED, seed)
    os.makedirs(d, exist_ok=True)
    for f in ("patch.diff", "demo.rs", "notes.md"):
        if os.path.exists(os.path.join(src, f)):
            shutil.copy(os.path.join(src, f), d)
    meta = load(seed)
    meta.update({"seed": seed, "breaks_property": prop, "needs_to_manifest": needs, "source": "independent sub-agent given only the property text and a scratch worktree"})
    save(seed, meta)


def cmd_confirm(seed):
    d = os.path.join(SEEDED, seed)
    wt = f"/tmp/wt_confirm_{seed}"
    sh(f"git -C /repo worktree remove --force {wt}")
    rc, out = sh(f"git -C /repo worktree add -q --detach {wt} HEAD")
    assert rc == 0, out
    res = {}
    try:
        rc, out = sh(f"git apply {d}/patch.diff", cwd=wt)
        res["patch_applies"] = rc == 0
        rc, out = sh("cargo test --offline --no-fail-fast 2>&1 | grep -E '^test result|FAILED|error' ", cwd=wt)
        res["suite_with_change"] = out.strip().splitlines()
        res["suite_passes_with_change"] = "FAILED" not in out and not re.search(r"^error", out, re.M) and out.count("test result: ok") >= 5
        shutil.copy(f"{d}/demo.rs", f"{wt}/tests/seed_demo.rs")
        rc, out = sh("cargo test --offline --test seed_demo 2>&1 | tail -15", cwd=wt)
        res["demo_fails_with_change"] = "test result: FAILED" in out or "panicked" in out
        res["demo_with_change_tail"] = out.strip().splitlines()[-6:]
        sh(f"git apply -R {d}/patch.diff", cwd=wt)
        rc, out = sh("cargo test --offline --test seed_demo 2>&1 | tail -5", cwd=wt)
        res["demo_passes_without_change"] = "test result: ok" in out
    finally:
        sh(f"git -C /repo worktree remove --force {wt}")
        sh(f"rm -rf {wt}")
    res["confirmed"] = all(res.get(k) for k in ("patch_applies", "suite_passes_with_change", "demo_fails_with_change", "demo_passes_without_change"))
    meta = load(seed)
    meta["confirmation"] = res
    meta["confirmation_cmds"] = ["git apply patch.diff", "cargo test --offline --no-fail-fast", "cp demo.rs tests/seed_demo.rs; cargo test --offline --test seed_demo", "git apply -R patch.diff; cargo test --offline --test seed_demo"]
    save(seed, meta)
    print(seed, "confirmed" if res["confirmed"] else "NOT CONFIRMED", json.dumps({k: v for k, v in res.items() if isinstance(v, bool)}))


def cmd_check(seed, extra):
    d = os.path.join(SEEDED, seed)
    meta = load(seed)
    prop = meta["breaks_property"]
    wt = f"/tmp/wt_chk_{seed}"
    sh(f"git -C /repo worktree remove --force {wt}")
    rc, out = sh(f"git -C /repo worktree add -q --detach {wt} HEAD")
    assert rc == 0, out
    rc, out = sh(f"git apply {d}/patch.diff", cwd=wt)
    assert rc == 0, out
    t0 = time.time()
    try:
        rc, out = sh(f"VERIF_REPO={wt} ./check {prop} {' '.join(extra)}", cwd=ROOT, timeout=6 * 3600)
    finally:
        sh(f"git -C /repo worktree remove --force {wt}")
        sh(f"rm -rf {wt}")
    lines = [l for l in out.splitlines() if l.startswith(("VIOLATION", "INCONCLUSIVE", "KNOWN-FINDING")) or "holds within" in l]
    run = {"cmd": f"VERIF_REPO=<scratch worktree of /repo HEAD with patch.diff applied> ./check {prop} {' '.join(extra)}",
           "repo_head": subprocess.run("git -C /repo rev-parse --short HEAD", shell=True, capture_output=True, text=True).stdout.strip(),
           "verif_head": subprocess.run("git -C /verif rev-parse --short HEAD", shell=True, capture_output=True, text=True).stdout.strip(), "exit": rc, "wall_s": round(time.time() - t0), "verdict_lines": lines[:8],
           "detected": rc == 1 and any(l.startswith("VIOLATION") for l in lines)}
    meta.setdefault("check_runs", []).append(run)
    save(seed, meta)
    print(seed, "DETECTED" if run["detected"] else f"missed (exit {rc})", lines[:4])


if __name__ == "__main__":
    a = sys.argv[1:]
    if a[0] == "import":
        cmd_import(*a[1:5])
    elif a[0] == "confirm":
        cmd_confirm(a[1])
    elif a[0] == "check":
        cmd_check(a[1], a[2:])
