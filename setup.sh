#!/usr/bin/env bash
# Run once after a fresh restore (offline). Nothing is fetched: it only checks that the tools
# are present and warms one Kani worker directory so the first check does not pay the dependency
# build. Every check rebuilds rosu-map from /repo's current working tree anyway.
set -euo pipefail
cd "$(dirname "$0")"
export CARGO_NET_OFFLINE=true
cargo kani --version
cbmc --version
mkdir -p .work/tgt evidence replays
(cd kani && RUSTFLAGS="--cfg maxohn_rosu_map_verif" cargo kani --only-codegen -Z stubbing \
    --harness smoke::smoke_true --exact --target-dir ../.work/tgt/w0 >/dev/null 2>&1 || true)
# native validation of the std stubs and the reference models against the real std / crate
(cd kani && cargo test --offline --test model_validation 2>&1 | tail -3)
echo "setup ok"
